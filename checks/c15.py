"""C15 Concurrent callers of one synchronous client are serialised."""
from hypothesis import strategies as st

from vlib import kinds, pm, refframe, sched, specpdu, transports
from vlib.engine import Disc, Outcome

PID = 'C15'
RULE = ('Hypothesis: 2..4 real threads x 1..3 transactions each on ONE shared client (ModbusTcpClient, ModbusUdpClient, serial RTU client) over '
        'the scripted virtual-time transport; replies differ in length and some are split over two reads with a delay; the '
        'schedule is a generated list of integers consumed by a baton-passing scheduler that owns every context switch '
        '(threads yield at connect, every send, every receive and at every acquisition of the transaction lock, which is '
        'rebound to a schedule-aware re-entrant lock). Sweep: depth-first enumeration of ALL schedules for 2 threads x 1 '
        'transaction (thorough: also 2 x 2 and 3 x 1). Oracle over the transport event log: (a) from a transaction\'s first '
        'send until its call returns no other thread performs a transport operation; (b) every written frame is one whole '
        'frame; (c) each call returns the reply that is the unique function of ITS request; (d) every thread finishes (no '
        'deadlock / lost wake-up). Non-trivial: the schedule made some thread wait for the lock; distinct by SHA-1. A fixed scenario without the scheduler covers a caller that is born (thread created) while another caller\'s transaction is between its send and its receive; the UDP client is driven too.')
ASSUMPTIONS = ['pre-emption happens only at transport operations and lock acquisitions, as the property states (not between arbitrary bytecodes)',
               'which code is protected is decided solely by the with-statement in pymodbus; the harness lock only makes waiting visible']
BUDGET = {'quick': 2500, 'thorough': 10000}


@st.composite
def _case(draw):
    if draw(st.integers(0, 5)) == 0:
        # profile: three or four callers with one transaction each, exactly one early request dropped, no retries - one caller
        # fails while others are queued and others still arrive
        n = draw(st.integers(3, 4))
        k = draw(st.integers(1, 2))
        return {'client': draw(st.sampled_from(['tcp', 'tcp', 'rtu', 'udp'])), 'ntx': [1] * n, 'split': [False] * 12,
                'faults': [i == k for i in range(12)], 'bcast': [], 'refuse': [], 'badreq': [], 'retries': 0,
                'schedule': draw(st.lists(st.integers(0, 3), min_size=8, max_size=60))}
    nthreads = draw(st.integers(2, 4))
    ntx = [draw(st.integers(1, 3)) for _ in range(nthreads)]
    return {'client': draw(st.sampled_from(['tcp', 'tcp', 'rtu', 'udp'])), 'ntx': ntx,
            'split': draw(st.lists(st.booleans(), min_size=12, max_size=12)),
            # transmissions the peer answers by silently closing the connection (the client retries on a new connection)
            'faults': draw(st.one_of(st.just([]), st.lists(st.sampled_from([False, False, False, True]), min_size=12, max_size=12))),
            # transactions that are broadcast writes (unit 0, no reply expected)
            'bcast': draw(st.one_of(st.just([]), st.lists(st.sampled_from([False, False, True]), min_size=12, max_size=12))),
            # connection attempts that are refused (the caller of that attempt may get a connection error; nobody may hang)
            'refuse': draw(st.one_of(st.just([]), st.just([]), st.lists(st.sampled_from([False, False, True]), min_size=1, max_size=6))),
            # transactions whose request cannot be encoded: that call raises (caller error); everybody else must be unaffected
            'badreq': draw(st.one_of(st.just([]), st.just([]), st.lists(st.sampled_from([False, False, True]), min_size=12, max_size=12))),
            # retry budget of the client (with 0 a single dropped request already makes that caller's transaction fail)
            'retries': draw(st.sampled_from([3, 3, 0, 1])),
            'schedule': draw(st.lists(st.integers(0, 3), min_size=8, max_size=120))}


def strategy(tier):
    return _case()


def sweeps(tier):
    """Stateless enumeration of all schedules (odometer over the decision vector)."""
    shapes = [('tcp', [1, 1]), ('rtu', [1, 1]), ('udp', [1, 1])]
    if tier == 'thorough':
        shapes += [('tcp', [2, 2]), ('tcp', [1, 1, 1]), ('rtu', [2, 1])]
    out = [('all-schedules-%s-%s' % (c, 'x'.join(map(str, n))), _enumerate(c, n, 4000 if tier == 'quick' else 200000), True) for c, n in shapes]
    # a second caller that is BORN while the first transaction is between its send and its receive (no scheduler: the first caller is
    # the check's own main thread, the second a real thread started from inside the transport)
    out.append(('thread-born-during-a-transaction', [{'born': True, 'client': c, 'n': n} for c in ('tcp', 'udp', 'rtu') for n in (1, 2)], False))
    # the same enumeration with a first transmission that the peer drops (one caller's transaction fails, retries 0 or 1)
    for c in ('tcp', 'rtu'):
        for retries in (0, 1):
            out.append(('schedules-in-depth-first-order-%s-1x1-first-request-dropped-retries-%d' % (c, retries),
                        _enumerate(c, [1, 1], 150 if tier == 'quick' else 20000, faults=[False, True] + [False] * 10, retries=retries), False))
    return out


def _enumerate(client, ntx, cap, faults=None, retries=3):
    prefix = []
    count = 0
    while count < cap:
        case = {'client': client, 'ntx': ntx, 'split': [False, True] * 6, 'schedule': list(prefix)}
        if faults:
            case['faults'] = list(faults)
            case['retries'] = retries
        out, s = _run(case)
        count += 1
        yield case
        # next schedule: increment the last decision that has an untried alternative
        dec, taken = s.decisions, s.taken
        i = len(dec) - 1
        while i >= 0 and taken[i] + 1 >= dec[i]:
            i -= 1
        if i < 0:
            return
        prefix = taken[:i] + [taken[i] + 1]


class ReplyPeer(transports.Peer):
    def __init__(self, framing, split, faults=(), stream=True):
        transports.Peer.__init__(self)
        self.stream = stream          # a datagram reply is never split
        self.framing = framing
        self.split = split
        self.faults = list(faults)
        self.n = 0
        self.bad = []

    def on_write(self, conn, data):
        self.n += 1
        try:
            p = refframe.parse_one(self.framing, data)
        except refframe.FrameError as e:
            self.bad.append((data, str(e)))
            return []
        kind, f = specpdu.decode('req', p['pdu'])
        if kind != 'req:3':
            return []                      # a broadcast write: nobody answers
        if self.faults and self.faults[self.n % len(self.faults)]:
            return [('close', 0.0)]        # the peer drops the request and closes the connection
        a, q = f['address'], f['quantity']
        reply = specpdu.encode('rsp:3', {'registers': [(a * 3 + i + 1000) & 0xFFFF for i in range(q)]})
        frame = refframe.build(self.framing, p['uid'], reply, p['tid'] or 0, 0)
        if self.split[self.n % len(self.split)] and self.framing == 'tcp' and self.stream:
            k = 9
            return [(0.0, frame[:k]), (0.0005, frame[k:])]
        return [(0.0, frame)]


def _run(case):
    from pymodbus.client.sync import ModbusTcpClient, ModbusSerialClient, ModbusUdpClient
    from pymodbus.exceptions import ConnectionException
    pm.reset_globals()
    framing = 'rtu' if case['client'] == 'rtu' else 'tcp'
    peer = ReplyPeer(framing, case['split'], case.get('faults') or [], stream=case['client'] != 'udp')
    bc = case.get('bcast') or []
    badreq = case.get('badreq') or []
    kw = {'retries': case.get('retries', 3), 'retry_on_empty': True, 'backoff': 0.01, 'broadcast_enable': bool(any(bc))}
    s = sched.Sched(case['schedule'])
    results = {}
    marks = []
    discs = []
    with transports.World(peer, scheduler=s) as w:
        w.connect_refusals = list(case.get('refuse') or []) if case['client'] == 'tcp' else []
        if case['client'] == 'tcp':
            client = ModbusTcpClient('peer', 502, timeout=1, **kw)
        elif case['client'] == 'udp':
            client = ModbusUdpClient('peer', 502, timeout=1, **kw)
        else:
            client = ModbusSerialClient(method='rtu', port='/dev/null', timeout=1, baudrate=115200, **kw)
        for t, n in enumerate(case['ntx']):
            def fn(t=t, n=n):
                for j in range(n):
                    addr = t * 16 + j
                    qty = 1 + (t + j) % 4
                    w.log.append(('tx-begin', s.cur, (t, j)))
                    try:
                        if badreq and badreq[(t * 5 + j) % len(badreq)]:
                            from pymodbus.register_write_message import WriteSingleRegisterRequest
                            try:
                                r = client.execute(WriteSingleRegisterRequest(addr, 0x10000, unit=1 + t))
                            except (ConnectionException, sched.Deadlock, transports.StepBudgetExceeded):
                                raise
                            except Exception as e:
                                r = e
                            qty = -1
                        elif bc and bc[(t * 3 + j) % len(bc)]:
                            r = client.write_register(addr, 7, unit=0)
                            qty = 0
                        else:
                            r = client.read_holding_registers(addr, qty, unit=1 + t)
                    except ConnectionException as e:
                        if not case.get('refuse') and not any(badreq):
                            raise
                        r = e          # a refused connection may surface as a connection error of THIS call
                        qty = -1
                    w.log.append(('tx-end', s.cur, (t, j)))
                    results[(t, j)] = (addr, qty, r)
            s.spawn('t%d' % t, fn)
        try:
            s.run()
        except sched.Deadlock as e:
            discs.append(Disc('deadlock', '%s threads %r schedule %r: %s' % (case['client'], case['ntx'], case['schedule'][:40], e)))
        except transports.StepBudgetExceeded as e:
            discs.append(Disc('no-termination', str(e)))
        log = list(w.log)
    for name, err in s.errors:
        discs.append(Disc('thread-raised', '%s: %s' % (name, err)))
    # (a) mutual exclusion of transactions on the transport
    owner = None
    for ev in log:
        op, th = ev[0], ev[1]
        if op in ('send', 'recv', 'connect', 'close'):
            if owner is not None and th != owner:
                discs.append(Disc('interleaved', '%s threads %r: %s performs %s while %s is between its send and the end of its transaction; schedule %r' % (
                    case['client'], case['ntx'], th, op, owner, s.taken[:60])))
                break
            if op == 'send':
                owner = th
        elif op in ('tx-end', 'unlock') and th == owner:
            owner = None            # a transaction is over when its lock is given up (the call returns a little later)
    # (b) frames whole
    for data, err in peer.bad:
        discs.append(Disc('frame-not-whole', 'written bytes %s are not one frame: %s' % (data.hex()[:60], err)))
    # (c) every caller got its own reply
    if not discs:
        for (t, j), (addr, qty, r) in sorted(results.items()):
            if qty == -1:
                continue
            if qty == 0:
                if not isinstance(r, bytes):
                    discs.append(Disc('wrong-reply', '%s thread %d tx %d: broadcast write returned %r' % (case['client'], t, j, r)))
                    break
                continue
            want = [(addr * 3 + i + 1000) & 0xFFFF for i in range(qty)]
            got = getattr(r, 'registers', None)
            if got != want and not _all_attempts_faulted(case) and not any(case.get('refuse') or []):
                discs.append(Disc('wrong-reply', '%s thread %d tx %d asked for %d registers at %d and got %r (expected %r); schedule %r' % (
                    case['client'], t, j, qty, addr, got if got is not None else r, want, s.taken[:60])))
                break
        total = sum(case['ntx'])
        if len(results) != total and not discs:
            discs.append(Disc('lost-call', '%d of %d calls returned' % (len(results), total)))
    pm.reset_globals()
    return Outcome(discs, ['client:' + case['client'], 'threads:%d' % len(case['ntx'])] + (['lock-contended'] if s.blocked_someone else []) +
                   (['faults'] if any(case.get('faults') or []) else []) + (['connect-refused'] if any(case.get('refuse') or []) else []) + (['broadcast'] if any(bc) else []) + (['unencodable-request'] if any(badreq) else []),
                   s.blocked_someone), s


def _all_attempts_faulted(case):
    # with generated faults a transaction may legitimately exhaust its retries: judged only when faults are sparse
    f = case.get('faults') or []
    return sum(1 for x in f if x) > case.get('retries', 3)


def _run_born(case):
    """Main thread: transaction A.  While A is between its send and its receive a new thread is created and calls the same client
    (transaction B).  With working serialisation B waits at the lock until A is over; the check waits (real time, bounded) until B
    has finished or sits motionless, so a slow machine can only make the scenario miss an overlap, never invent one."""
    import sys
    import threading
    import time as realtime
    from pymodbus.client.sync import ModbusTcpClient, ModbusSerialClient, ModbusUdpClient
    pm.reset_globals()
    ckind = case['client']
    framing = 'rtu' if ckind == 'rtu' else 'tcp'
    labels = ['born-during-transaction', 'client:' + ckind]
    discs = []
    state = {'main_open': False, 'spawned': 0, 'overlap': None, 'results': {}, 'threads': []}

    class Peer(ReplyPeer):
        def on_write(self_, conn, data):
            me = threading.current_thread()
            if me is not threading.main_thread() and state['overlap'] is None and state.get('a_reply_len'):
                # judged on the transport log: has the first caller (main thread = log owner None) read all of its reply yet?
                got = sum(len(ev[2]) for ev in world.log[state['a_sent_at']:] if ev[0] == 'recv' and ev[1] is None)
                if got < state['a_reply_len']:
                    state['overlap'] = 'the new thread sent %s while the first caller had read %d of the %d bytes of its reply' % (
                        bytes(data).hex()[:40], got, state['a_reply_len'])
            items = ReplyPeer.on_write(self_, conn, data)
            if me is threading.main_thread():
                state['a_sent_at'] = len(world.log)
                state['a_reply_len'] = sum(len(it[1]) for it in items if it[0] != 'close')
            if me is threading.main_thread() and state['spawned'] < case.get('n', 1):
                state['spawned'] += 1
                k = state['spawned']

                def second():
                    try:
                        state['results'][k] = client.read_holding_registers(100 + k, 2, unit=5)
                    except Exception as e:
                        state['results'][k] = e
                t = threading.Thread(target=second, daemon=True)
                state['threads'].append(t)
                t.start()
                # let it run until it is done or blocked (same code position for 10 samples of 20 ms), at most 5 s
                same, last, t0 = 0, None, realtime.time()
                while t.is_alive() and realtime.time() - t0 < 5:
                    fr = sys._current_frames().get(t.ident)
                    pos = (id(fr.f_code), fr.f_lasti) if fr is not None else None
                    same = same + 1 if pos == last else 0
                    last = pos
                    if same >= 10:
                        break
                    realtime.sleep(0.02)
            return items
    peer = Peer(framing, [False] * 4, [], stream=False)
    with transports.World(peer) as world:
        kw = {'retries': 0, 'timeout': 1}
        client = ModbusTcpClient('peer', 502, **kw) if ckind == 'tcp' else (
            ModbusUdpClient('peer', 502, **kw) if ckind == 'udp' else ModbusSerialClient(method='rtu', port='/dev/null', baudrate=115200, **kw))
        state['main_open'] = True
        try:
            first = client.read_holding_registers(7, 3, unit=1)
        except Exception as e:
            first = e
        state['main_open'] = False
        for t in state['threads']:
            t.join(30)
            if t.is_alive():
                discs.append(Disc('deadlock', '%s: the thread born during the first transaction never finished' % ckind))
    if state['overlap']:
        discs.append(Disc('interleaved', '%s: %s' % (ckind, state['overlap'])))
    want = [(7 * 3 + i + 1000) & 0xFFFF for i in range(3)]
    if not discs and getattr(first, 'registers', None) != want:
        discs.append(Disc('wrong-reply', '%s: the first caller got %r (expected %r) after a second thread was born during its transaction' % (ckind, first, want)))
    for k, r in sorted(state['results'].items()):
        w2 = [((100 + k) * 3 + i + 1000) & 0xFFFF for i in range(2)]
        if not discs and getattr(r, 'registers', None) != w2:
            discs.append(Disc('wrong-reply', '%s: the thread born during the first transaction got %r (expected %r)' % (ckind, r, w2)))
    pm.reset_globals()
    return Outcome(discs, labels, True)


def run_case(case):
    if case.get('born'):
        return _run_born(case)
    return _run(case)[0]
