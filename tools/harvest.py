#!/venv/bin/python
"""harvest.py [ids|all] - for every seeded defect: scratch copy of /repo HEAD + patch, run the check of its own property
(then, if that holds, every other check) and keep the shrunk failing case as regress/<CHECK>__<seed>.json.
These saved inputs are replayed first by every run of that check (engine stage 0): on the unchanged tree they hold,
on a tree with that defect (or a neighbour of it) they fail at once, whatever VERIF_SEED is."""
import glob, json, os, shutil, subprocess, sys, tempfile
from concurrent.futures import ThreadPoolExecutor
ALL = ['C%02d' % i for i in range(1, 21)]

def one(seed):
    d = tempfile.mkdtemp(prefix='hv_', dir='/tmp')
    try:
        r = subprocess.run('git -C /repo archive HEAD | tar -x -C %s && cd %s && git init -q . && git apply /verif/seeded/%s/patch.diff' % (d, d, seed),
                           shell=True, capture_output=True, text=True)
        if r.returncode:
            return seed, None, 'patch does not apply'
        own = seed.split('-')[0]
        order = [own] + ([c for c in ALL if c != own] if os.environ.get('HARVEST_SIBLINGS', '1') == '1' else [])
        for c in order:
            shutil.rmtree(os.path.join(d, 'replays'), ignore_errors=True)
            env = dict(os.environ, VERIF_REPO=d, VERIF_OUT=d, VERIF_HANG_S='30', VERIF_NO_REGRESS='1')
            r = subprocess.run(['/venv/bin/python', '/verif/run_check.py', c], env=env, capture_output=True, text=True, cwd='/verif')
            if r.returncode == 1:
                files = sorted(glob.glob(os.path.join(d, 'replays', '*.json')))
                if files:
                    dst = '/verif/regress/%s__%s.json' % (c, seed)
                    shutil.copy(files[0], dst)
                    return seed, c, dst
            elif r.returncode != 0:
                return seed, None, 'harness error in %s: %s' % (c, (r.stdout + r.stderr)[-300:])
        return seed, None, 'no check reports it'
    finally:
        shutil.rmtree(d, ignore_errors=True)

def main():
    seeds = sorted(x for x in os.listdir('/verif/seeded') if os.path.isdir('/verif/seeded/' + x))
    if len(sys.argv) > 1 and sys.argv[1] != 'all':
        seeds = [s for s in seeds if s in sys.argv[1].split(',')]
    have = set(os.path.basename(f).split('__')[1][:-5] for f in glob.glob('/verif/regress/*.json'))
    if os.environ.get('HARVEST_REDO') != '1':
        seeds = [s for s in seeds if s not in have]
    with ThreadPoolExecutor(int(os.environ.get('HARVEST_JOBS', '4'))) as ex:
        for seed, c, info in ex.map(one, seeds):
            print(seed, c or 'MISSED', info)
            sys.stdout.flush()
main()
