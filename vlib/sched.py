"""Deterministic thread scheduler (DESIGN 3.7): real threads, exactly one runs at a time
(baton passing); they yield to the scheduler at every fake-transport operation and at every
acquisition of the transaction lock.  The schedule is a list of integers
(choice k mod number of runnable threads)."""
import sys
import threading
import time as _realtime


class Deadlock(Exception):
    pass


# real time spent finding out that a scheduled thread sits in a synchronisation primitive the scheduler cannot see
# (process-wide: checks use it as a budget, see C15)
REAL_BLOCK_SECONDS = [0.0]


class Sched(object):
    def __init__(self, choices, max_steps=400000):
        self.choices = list(choices)
        self.ci = 0
        self.workers = {}
        self.order = []
        self.main_ev = threading.Event()
        self.cur = None
        self.errors = []
        self.decisions = []       # number of runnable threads at every scheduling decision
        self.taken = []           # index chosen
        self.preemptions = 0      # decisions that switched away from a thread that could have continued
        self.max_steps = max_steps
        self.blocked_someone = False
        self.clock = None          # virtual clock (set by transports.World): lock time-outs expire on it

    def spawn(self, name, fn):
        w = {'ev': threading.Event(), 'state': 'ready', 'blocked_on': None}

        def body():
            w['ev'].wait()
            w['ev'].clear()
            try:
                fn()
            except BaseException as e:
                self.errors.append((name, '%s: %s' % (type(e).__name__, e)))
            parked = (w['state'] == 'parked-real')
            w['state'] = 'done'
            if self.cur == name and not parked:
                self.main_ev.set()
        w['thread'] = threading.Thread(target=body, daemon=True)
        self.workers[name] = w
        self.order.append(name)
        w['thread'].start()

    def _yield(self, name):
        w = self.workers[name]
        self.main_ev.set()
        w['ev'].wait()
        w['ev'].clear()

    def _me(self):
        t = threading.current_thread()
        for n, w in self.workers.items():
            if w['thread'] is t:
                return n
        return None

    def yield_point(self, what):
        if self.cur is None:
            return
        me = self._me()
        if me is None:
            return
        if me != self.cur or self.workers[me]['state'] == 'parked-real':
            # this thread was parked inside a primitive the scheduler cannot see (see run()) and has just been released by
            # it: before it does anything observable it waits for the baton like everybody else
            w = self.workers[me]
            w['state'] = 'ready'
            w['ev'].wait()
            w['ev'].clear()
            return
        self._yield(me)

    def block_on(self, lock, deadline=None):
        name = self.cur
        w = self.workers[name]
        w['state'] = 'blocked'
        w['blocked_on'] = lock
        w['deadline'] = deadline
        self.blocked_someone = True
        self._yield(name)
        w['state'] = 'ready'
        w['blocked_on'] = None
        w['deadline'] = None

    def _expired(self, w):
        d = w.get('deadline')
        return d is not None and self.clock is not None and self.clock.t >= d

    def run(self):
        steps = 0
        last = None
        while True:
            runnable = [n for n in self.order if self.workers[n]['state'] == 'ready' or
                        (self.workers[n]['state'] == 'blocked' and (self.workers[n]['blocked_on'].free_for(n) or self._expired(self.workers[n])))]
            if not runnable:
                if all(w['state'] == 'done' for w in self.workers.values()):
                    return
                if any(w['state'] == 'parked-real' for w in self.workers.values()):
                    # threads sit in real primitives: whoever held what they wait for may just have released it
                    t0 = _realtime.time()
                    while _realtime.time() - t0 < 10 and not any(w['state'] in ('ready', 'done') and w.get('was_parked') for w in self.workers.values()):
                        _realtime.sleep(0.01)
                    woke = [w for w in self.workers.values() if w['state'] in ('ready', 'done') and w.get('was_parked')]
                    for w in woke:
                        w['was_parked'] = False
                    if woke:
                        continue
                raise Deadlock('no runnable thread: %r' % [(n, w['state']) for n, w in self.workers.items()])
            c = self.choices[self.ci] if self.ci < len(self.choices) else 0
            self.ci += 1
            k = c % len(runnable)
            self.decisions.append(len(runnable))
            self.taken.append(k)
            n = runnable[k]
            if last is not None and last in runnable and n != last:
                self.preemptions += 1
            last = n
            self.cur = n
            self.main_ev.clear()
            self.workers[n]['ev'].set()
            if not self._wait_for(n):
                raise Deadlock('thread %s did not come back to the scheduler' % n)
            steps += 1
            if steps > self.max_steps:
                raise Deadlock('livelock: more than %d scheduling steps' % self.max_steps)


    def _wait_for(self, n):
        """Wait until thread n hands the baton back.  If it sits motionless inside a C-level wait instead (a lock, condition or
        queue that is not the rebound RLock: code under test may bring its own synchronisation), mark it 'parked-real' and let the
        others run: it cannot do anything observable before its next yield point, where it queues for the baton again."""
        w = self.workers[n]
        ident = w['thread'].ident
        same, lastpos, t0 = 0, None, _realtime.time()
        while not self.main_ev.wait(0.02):
            if _realtime.time() - t0 > 300:
                return False
            fr = sys._current_frames().get(ident)
            pos = (id(fr.f_code), fr.f_lasti) if fr is not None else None
            same = same + 1 if pos == lastpos else 0
            lastpos = pos
            if same >= 15 and w['state'] not in ('done',):
                REAL_BLOCK_SECONDS[0] += _realtime.time() - t0
                w['state'] = 'parked-real'
                w['was_parked'] = True
                self.blocked_someone = True
                return True
        return True


def make_lock_class(get_sched):
    """A re-entrant lock with stdlib ownership semantics whose waiting is visible to the scheduler."""

    class SLock(object):
        def __init__(self):
            self.real = threading.RLock()
            self.owner = None
            self.depth = 0

        def free_for(self, name):
            return self.owner is None or self.owner == name

        def acquire(self, blocking=True, timeout=-1):
            s = get_sched()
            if s is None or s.cur is None:
                return self.real.acquire(blocking)
            s.yield_point('lock?')
            if not blocking:
                ok = self.real.acquire(blocking=False)
                if ok:
                    self.owner = s.cur
                    self.depth += 1
                return ok
            deadline = None
            if timeout is not None and timeout >= 0 and s.clock is not None:
                deadline = s.clock.t + timeout
            while not self.real.acquire(blocking=False):
                if deadline is not None and s.clock.t >= deadline:
                    return False          # a timed acquire gave up (virtual time)
                s.block_on(self, deadline)
            self.owner = s.cur
            self.depth += 1
            return True

        def release(self):
            s = get_sched()
            freed = False
            if s is not None and s.cur is not None:
                self.depth -= 1
                if self.depth == 0:
                    self.owner = None
                    freed = True
            self.real.release()
            if freed:
                hook = getattr(s, 'on_unlock', None)
                if hook is not None:
                    hook(s.cur)
                s.yield_point('unlock')      # the moment a waiting thread can get in: a pre-emption point like the acquisition

        __enter__ = acquire

        def __exit__(self, *a):
            self.release()
    return SLock
