"""C14 Predicted reply length equals the length the server really sends."""
from hypothesis import strategies as st

from vlib import gens, kinds, model, pm, refframe, specpdu, transports
from vlib.engine import Disc, Outcome

PID = 'C14'
RULE = ('Exhaustive sweeps + Hypothesis: (a) for every request class that predicts its reply size - FC 1,2 (1..2000 bits), '
        '3,4 (1..125), 5, 6, 15 (1..1968), 16 (1..123), 23 (1..125 read), 8 with every sub-function incl. Modbus-Plus get/clear '
        '- the prediction on the client-side object must equal 1+len(encode()) of the normal response the real pymodbus server '
        'path (ServerDecoder -> execute on a datastore) returns; (b) a real ModbusSerialClient (rtu / ascii / binary) runs the '
        'transaction over a scripted serial port in virtual time whose peer is that server path: the sizes the client asks of '
        'its port must sum to exactly the reply frame, no read may come back short (= a timeout in real life), no byte may be '
        'left unread, for normal and exception replies; (c) base ADU size / exception length of every framing incl. TLS equal '
        'the reference frame overheads. Non-trivial: bit quantity >=2 and not a multiple of 8, any exception reply, any '
        'transfer; distinct by SHA-1. Serial clients are also built with generated options: handle_local_echo on a line that echoes every written byte, strict on/off, baud rate 9600..115200; the reply may reach the port in generated bursts 3 ms apart.')
ASSUMPTIONS = ['requests that by specification get no reply (Force Listen Only Mode) are excluded',
               'binary transfers whose reply contains delimiter bytes are excluded (KF-BINARY-FRAMER-DELIMITER-BYTES)']
BUDGET = {'quick': 1500, 'thorough': 6000}

BIG = {'zero_mode': True, 'share': None,
       'tables': dict((k, {'shape': 'seq', 'start': 0, 'values': [False if k in 'cd' else 0] * 2100}) for k in 'cdhi')}
_slave = [None]


def slave():
    if _slave[0] is None:
        _slave[0] = model.make_slave(BIG)
    return _slave[0]


def _req_fields(fc, q):
    if fc in (1, 2, 3, 4):
        return 'req:%d' % fc, {'address': 3, 'quantity': q}
    if fc == 5:
        return 'req:5', {'address': q % 50, 'value': 0xFF00 if q % 2 else 0}
    if fc == 6:
        return 'req:6', {'address': q % 50, 'value': (q * 77) & 0xFFFF}
    if fc == 15:
        return 'req:15', {'address': 2, 'bits': [bool((i * 7 + q) % 3) for i in range(q)]}
    if fc == 16:
        return 'req:16', {'address': 2, 'registers': [(i * 31 + q) & 0xFFFF for i in range(q)]}
    if fc == 23:
        return 'req:23', {'read_address': 1, 'read_quantity': q, 'write_address': 200, 'registers': [q & 0xFFFF, 1]}
    raise ValueError(fc)


def sweeps(tier):
    cases = []
    for fc, maxq in ((1, 2000), (2, 2000), (3, 125), (4, 125), (15, 1968), (16, 123), (23, 125), (5, 4), (6, 4)):
        for q in range(1, maxq + 1):
            k, f = _req_fields(fc, q)
            cases.append({'t': 'size', 'kind': k, 'fields': f})
    for sub in sorted(kinds.DIAG_REQ):
        if sub == 4:
            continue
        for w in ((3, 4) if sub == 21 else ((0xFF00, 0) if sub == 1 else (0, 0xA537))):
            cases.append({'t': 'size', 'kind': 'req:8', 'fields': {'sub': sub, 'data': [w]}})
    cases.append({'t': 'size', 'kind': 'req:8', 'fields': {'sub': 0, 'data': [1, 2, 3]}})
    out = [('all-quantities-of-every-predicting-request', cases, True)]
    # the same prediction asked of request objects that were decoded from the wire or re-used with a new quantity
    more = []
    for fc, maxq in ((1, 2000), (2, 2000), (3, 125), (4, 125), (15, 1968), (16, 123), (23, 125)):
        for q in sorted(set(list(range(1, 41)) + [maxq - 1, maxq, maxq // 2, 255, 256, 257] if maxq > 300 else range(1, maxq + 1))):
            if q > maxq:
                continue
            k, f = _req_fields(fc, q)
            more.append({'t': 'size', 'kind': k, 'fields': f, 'built': 'decoded'})
            if fc in (1, 2, 3, 4):
                more.append({'t': 'size', 'kind': k, 'fields': f, 'built': 'reused'})
    out.append(('predictions-of-decoded-and-re-used-request-objects', more, False))
    # whatever other request class offers a prediction (discovered at run time): judged against the server path, also with
    # process-wide state that changes the reply size (a non-empty communication event log)
    generic = []
    for kind, f in (('req:7', {}), ('req:11', {}), ('req:12', {}), ('req:17', {}), ('req:22', {'address': 3, 'and_mask': 0xF2, 'or_mask': 0x25}),
                    ('req:24', {'address': 4}), ('req:20', {'records': [{'file': 1, 'record': 1, 'length': 2}]}),
                    ('req:43', {'read_code': 1, 'object_id': 0})):
        for events in (0, 1, 3, 64):
            if events and kind != 'req:12':
                continue
            generic.append({'t': 'size', 'kind': kind, 'fields': f, 'generic': True, 'events': events})
    out.append(('other-request-classes-that-offer-a-prediction', generic, False))
    cases = []
    for framing in ('rtu', 'ascii', 'binary'):
        for fc, qs in ((1, [1, 7, 8, 9, 16, 17, 2000]), (3, [1, 2, 125]), (5, [1]), (6, [1]), (15, [1, 9, 1968]), (16, [1, 123]), (23, [1, 125])):
            for q in (qs if tier == 'quick' else sorted(set(qs + list(range(1, 40))))):
                for exc in (False, True):
                    k, f = _req_fields(fc, q)
                    cases.append({'t': 'xfer', 'framing': framing, 'kind': k, 'fields': f, 'exception': exc, 'uid': 1})
                    if q == qs[0]:
                        cases.append({'t': 'xfer', 'framing': framing, 'kind': k, 'fields': f, 'exception': exc, 'uid': 1, 'after_silence': True})
        for sub in (0, 1, 2, 10, 11, 20, 21):
            cases.append({'t': 'xfer', 'framing': framing, 'kind': 'req:8', 'fields': {'sub': sub, 'data': [3 if sub == 21 else 0]}, 'exception': False, 'uid': 1})
            if sub == 21:
                cases.append({'t': 'xfer', 'framing': framing, 'kind': 'req:8', 'fields': {'sub': sub, 'data': [4]}, 'exception': False, 'uid': 1})
    out.append(('transfers-boundary-quantities-x-framings-x-normal/exception', cases, False))
    out.append(('framing-constants', [{'t': 'const', 'framing': fr} for fr in ('tcp', 'rtu', 'ascii', 'binary', 'tls')], True))
    return out


@st.composite
def _case(draw):
    fc = draw(st.sampled_from([1, 2, 3, 4, 5, 6, 15, 16, 23, 8]))
    if fc == 8:
        sub = draw(st.sampled_from([s for s in sorted(kinds.DIAG_REQ) if s != 4]))
        k, f = 'req:8', {'sub': sub, 'data': [draw(st.sampled_from([3, 4])) if sub == 21 else (draw(st.sampled_from([0xFF00, 0])) if sub == 1 else draw(gens.u16()))]}
    else:
        maxq = {1: 2000, 2: 2000, 3: 125, 4: 125, 5: 1, 6: 1, 15: 1968, 16: 123, 23: 125}[fc]
        k, f = _req_fields(fc, draw(st.one_of(st.integers(1, maxq), st.integers(1, min(maxq, 40)))))
    return {'t': 'xfer', 'framing': draw(st.sampled_from(['rtu', 'ascii', 'binary'])), 'kind': k, 'fields': f,
            'exception': draw(st.booleans()) and fc != 8, 'uid': draw(st.integers(1, 247)),
            # the judged transaction may follow one that the unit did not answer at all (the client remembers such units)
            'after_silence': draw(st.sampled_from([False, False, True])),
            # the judged reply may come on a retransmission (retry_on_empty): the sizing of the second attempt is judged
            'unanswered_first': draw(st.sampled_from([0, 0, 0, 1, 2])),
            # the reply may reach the port in bursts a few milliseconds apart (cut positions in bytes): a read that is
            # issued while only a part has arrived still has to wait for the rest of the predicted length
            'bursts': draw(st.sampled_from([None, None, None, [2], [3], [1, 4], [64], [2, 5, 9], [4, 200]])),
            'serial': draw(transports.serial_options())}


def strategy(tier):
    return _case()


def _server_response(kind, f):
    from pymodbus.factory import ServerDecoder
    pm.reset_globals()
    req = ServerDecoder().decode(specpdu.encode(kind, f))
    rsp = req.execute(slave())
    return rsp


def _run_size(case):
    kind, f = case['kind'], case['fields']
    labels = ['size', 'kind:' + kind]
    creq = kinds.build(kind, f)
    if case.get('generic'):
        if not hasattr(creq, 'get_response_pdu_size'):
            return Outcome([], labels + ['no-prediction-offered'], False)
        labels.append('discovered-predictor')
        try:
            pred = creq.get_response_pdu_size()
            from pymodbus.factory import ServerDecoder
            from pymodbus.device import ModbusControlBlock
            from pymodbus.events import RemoteReceiveEvent
            pm.reset_globals()
            for _ in range(case.get('events') or 0):
                ModbusControlBlock().addEvent(RemoteReceiveEvent())
            try:
                rsp = ServerDecoder().decode(specpdu.encode(kind, f)).execute(slave())
                real = 1 + len(rsp.encode())
            except Exception:
                pm.reset_globals()
                return Outcome([], labels + ['excluded-server-path-raised'], False)      # not a matter of the prediction
            pm.reset_globals()
            if rsp.function_code >= 0x80 or not pred:
                return Outcome([], labels + ['excluded-exception-or-no-size'], False)
            if pred != real:
                return Outcome([Disc('prediction', '%s (event log holds %d events): get_response_pdu_size() = %d, the server\'s normal response PDU has %d bytes' % (
                    kind, case.get('events') or 0, pred, real))], labels, True)
        except Exception as e:
            pm.reset_globals()
            return Outcome([Disc('raises', '%s: %s: %s' % (kind, type(e).__name__, e))], labels, True)
        return Outcome([], labels, True)
    how = case.get('built')
    if how == 'decoded':
        # the same request as the decoder builds it from the wire
        from pymodbus.factory import ServerDecoder
        creq = ServerDecoder().decode(specpdu.encode(kind, f))
        labels.append('request-object-decoded')
    elif how == 'reused' and kind in ('req:1', 'req:2', 'req:3', 'req:4'):
        # an object built for another quantity and then re-used (the quantity is a public attribute)
        q = f['quantity']
        creq = kinds.build(kind, dict(f, quantity=(q * 7 + 13) % 120 + 1))
        creq.count = q
        labels.append('request-object-reused')
    discs = []
    try:
        pred = creq.get_response_pdu_size()
        rsp = _server_response(kind, f)
        real = 1 + len(rsp.encode())
        if rsp.function_code >= 0x80:
            # the server path of this tree refuses a valid request (a matter of C04 / C05): fall back to the reply a conformant
            # server gives according to the reference model, where the model knows its size
            labels.append('server-path-gave-exception')
            rpdu_ = specpdu.encode(kind, f)
            if rpdu_[0] in (1, 2, 3, 4, 5, 6, 15, 16, 23):
                real = len(transports.reply_pdu(rpdu_, 1))
            else:
                return Outcome([], labels + ['excluded-no-reference-size'], False)
        if pred != real:
            discs.append(Disc('prediction', '%s %s: get_response_pdu_size() = %d, the server\'s normal response PDU has %d bytes' % (
                kind, _brief(f), pred, real), _kf(kind, f)))
    except Exception as e:
        from vlib.engine import HarnessError
        if isinstance(e, HarnessError):
            raise
        discs.append(Disc('raises', '%s %s: %s: %s' % (kind, _brief(f), type(e).__name__, e)))
    q = f.get('quantity', 0)
    return Outcome(discs, labels, (kind in ('req:1', 'req:2') and q >= 2 and q % 8 != 0) or kind not in ('req:1', 'req:2'))


def _kf(kind, f):
    return None


def _brief(f):
    return dict((k, (len(v) if isinstance(v, list) and len(v) > 6 else v)) for k, v in f.items())


class ServerPeer(transports.Peer):
    def __init__(self, framing, uid, exception):
        transports.Peer.__init__(self)
        from pymodbus.factory import ServerDecoder
        self.framing = framing
        self.framer = pm.framer_class(framing)(ServerDecoder())
        self.uid = uid
        self.exception = exception
        self.replies = []
        self.silent = False
        self.skip = 0          # number of transmissions that stay unanswered before the peer answers (retries)
        self.bursts = None     # byte positions at which the reply is cut into bursts 3 ms apart

    def on_write(self, conn, data):
        out = []
        if self.silent:
            return []
        if self.skip > 0:
            self.skip -= 1
            return []

        def cb(req):
            if self.exception:
                from pymodbus.pdu import ExceptionResponse
                rsp = ExceptionResponse(req.function_code, 2)
            else:
                rsp = req.execute(slave())
            rsp.transaction_id, rsp.unit_id = req.transaction_id, req.unit_id
            out.append(self.framer.buildPacket(rsp))
        try:
            self.framer.processIncomingPacket(data, cb, [self.uid], single=True)
        except Exception:
            self.framer.resetFrame()
        self.replies.extend(out)
        if self.bursts and len(out) == 1:
            fr = out[0]
            cuts = sorted(set(c for c in self.bursts if 0 < c < len(fr)))
            parts = [fr[a:b] for a, b in zip([0] + cuts, cuts + [len(fr)])]
            return [(0.003 * i, part) for i, part in enumerate(parts)]
        return [(0.0, fr) for fr in out]


def _run_xfer(case):
    from pymodbus.client.sync import ModbusSerialClient
    pm.reset_globals()
    framing, kind, f = case['framing'], case['kind'], case['fields']
    labels = ['xfer', 'framing:' + framing, 'kind:' + kind, 'exception-reply' if case['exception'] else 'normal-reply']
    peer = ServerPeer(framing, case['uid'], case['exception'])
    discs = []
    if framing == 'binary' and refframe.binary_fragile(refframe.build(framing, case['uid'], specpdu.encode(kind, f))):
        return Outcome([], labels + ['excluded-binary-delimiter'], False)
    with transports.World(peer) as w:
        try:
            nskip = case.get('unanswered_first') or 0
            rkw = {'retries': 3, 'retry_on_empty': True, 'backoff': 0.1} if nskip else {}
            client = ModbusSerialClient(method=framing, port='/dev/null', timeout=1, **dict(rkw, **transports.serial_kwargs(w, case.get('serial'))))
            if nskip:
                labels.append('reply-on-retransmission')
            if case.get('serial'):
                labels.append('serial-opts:' + ','.join('%s=%s' % kv for kv in sorted(case['serial'].items())))
            if case.get('after_silence'):
                labels.append('after-unanswered-transaction')
                peer.silent = True
                client.execute(kinds.build(kind, f, unit=case['uid']))
                peer.silent = False
                peer.written[:] = []
                w.clock.sleep(1.0)
            req = kinds.build(kind, f, unit=case['uid'])
            peer.skip = nskip
            if case.get('bursts') and hasattr(req, 'get_response_pdu_size'):
                peer.bursts = case['bursts']
                labels.append('reply-in-bursts')
            result = client.execute(req)
        except transports.StepBudgetExceeded as e:
            return Outcome([Disc('no-termination', '%s %s: %s' % (framing, kind, e))], labels, True)
        except Exception as e:
            result = e
        conn = w.conns[-1] if w.conns else None
    if not peer.replies:
        return Outcome([Disc('no-reply-produced', '%s %s %s: the server path produced no reply (request frame %r)' % (framing, kind, _brief(f), [x.hex()[:40] for x in peer.written]))], labels, True)
    reply = peer.replies[0]
    if framing == 'binary' and (refframe.binary_fragile(reply) or refframe.binary_fragile(peer.written[0])):
        return Outcome([], labels + ['excluded-binary-delimiter'], False)
    reads = list(conn.read_requests)
    echo = len(peer.written[0]) if (case.get('serial') or {}).get('echo') else 0     # the echoed request is read first
    asked = sum(a for a, r in reads) - echo
    short = [(a, r) for a, r in reads if r < a]
    finding = _kf(kind, f) if not case['exception'] else None
    if finding is None and framing == 'rtu' and kind == 'req:8' and len(reply) != 8 and not case['exception']:
        finding = 'KF-RTU-DIAGNOSTIC-FIXED-SIZE'
    if short:
        discs.append(Disc('short-read', '%s %s %s: reply frame has %d bytes, client reads %r came back short (it waits for bytes that never come)' % (
            framing, kind, _brief(f), len(reply), reads), finding))
    elif asked != len(reply) or conn.rx:
        discs.append(Disc('wrong-length', '%s %s %s: reply frame has %d bytes, client asked its port for %r = %d, %d bytes left unread' % (
            framing, kind, _brief(f), len(reply), [a for a, r in reads], asked, len(conn.rx)), finding))
    if not discs:
        ok = not isinstance(result, Exception) and hasattr(result, 'function_code') and \
            result.function_code == (req.function_code | (0x80 if case['exception'] else 0))
        if not ok:
            discs.append(Disc('result', '%s %s: transaction returned %r' % (framing, kind, result), finding))
    pm.reset_globals()
    return Outcome(discs, labels, True)


def _run_const(case):
    from pymodbus.transaction import ModbusTransactionManager
    import types
    framing = case['framing']
    fr = pm.framer_class(framing)(pm.decoder('rsp'))
    tm = ModbusTransactionManager(types.SimpleNamespace(framer=fr))
    discs = []
    pdu = bytes.fromhex('0304000a000b')
    over = len(refframe.build(framing, 1, pdu, 1, 0)) - (2 * len(pdu) if framing == 'ascii' else len(pdu))
    if tm.base_adu_size != over:
        discs.append(Disc('base-adu-size', '%s: base_adu_size %r, reference overhead %d' % (framing, tm.base_adu_size, over)))
    exc_len = len(refframe.build(framing, 1, b'\x83\x02', 1, 0))
    if tm._calculate_exception_length() != exc_len:
        discs.append(Disc('exception-length', '%s: exception length %r, reference %d' % (framing, tm._calculate_exception_length(), exc_len)))
    want = len(refframe.build(framing, 1, pdu, 1, 0))
    got = tm._calculate_response_length(2 * len(pdu) if framing == 'ascii' else len(pdu))
    if got != want:
        discs.append(Disc('response-length', '%s: response length %r, reference %d' % (framing, got, want)))
    return Outcome(discs, ['const', 'framing:' + framing], True)


def run_case(case):
    if case['t'] == 'size':
        return _run_size(case)
    if case['t'] == 'const':
        return _run_const(case)
    return _run_xfer(case)
