#!/usr/bin/env python3
"""Copy confirmed seeded defects from /tmp/seed_<Cnn>/<x> into /verif/seeded/<Cnn>-<x>/ with meta.json."""
import json, os, re, shutil, sys
res_dir = '/tmp/seedres'
for d in sorted(os.listdir('/tmp')):
    m = re.match(r'seed_(C\d\d)$', d)
    if not m:
        continue
    pid = m.group(1)
    for x in sorted(os.listdir('/tmp/' + d)):
        src = '/tmp/%s/%s' % (d, x)
        if not os.path.isfile(src + '/patch.diff'):
            continue
        rf = '%s/%s-%s.txt' % (res_dir, pid, x)
        if not os.path.exists(rf):
            continue
        txt = open(rf).read()
        line = [l for l in txt.splitlines() if l.startswith('{')]
        if not line:
            continue
        r = json.loads(line[-1])
        ok = r.get('applies') and r.get('demo_with') not in (0, None) and r.get('demo_without') == 0 and r.get('tests_pass', True)
        if not ok:
            print('NOT CONFIRMED', pid, x, r)
            continue
        dst = '/verif/seeded/%s-%s' % (pid, x)
        os.makedirs(dst, exist_ok=True)
        for f in ('patch.diff', 'demo.py', 'notes.md'):
            if os.path.exists(src + '/' + f):
                shutil.copy(src + '/' + f, dst + '/' + f)
        notes = open(src + '/notes.md').read() if os.path.exists(src + '/notes.md') else ''
        meta = {'id': '%s-%s' % (pid, x), 'breaks_property': pid,
                'origin': 'independent sub-agent given only the property text and a scratch worktree of /repo',
                'needs_to_manifest': notes[:1500],
                'confirmed': {'patch_applies_to_repo_head': True, 'baseline_354_tests_pass_with_patch': bool(r.get('tests_pass', True)),
                              'demo_exit_with_patch': r.get('demo_with'), 'demo_exit_without_patch': r.get('demo_without')},
                'what_was_run': 'tools/seedrun.py <dir> --checks <ids>: scratch copy of /repo HEAD + git apply patch.diff; demo.py with PYTHONPATH=scratch and =/repo; tools/basecheck.sh scratch; run_check.py with VERIF_REPO=scratch'}
        json.dump(meta, open(dst + '/meta.json', 'w'), indent=1)
        print('stored', dst)
