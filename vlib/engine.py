"""Shared engine: Hypothesis driving, case counting, known-finding matching,
replay files, evidence writing, sharding.

A check module exposes (see DESIGN.md 2.1):

    PID          'C01'
    RULE         text: generation + non-triviality rule
    ASSUMPTIONS  list[str]
    BUDGET       {'quick': n_examples, 'thorough': n_examples_per_shard}
    strategy(tier)            -> hypothesis strategy of JSON-serialisable cases
    run_case(case)            -> Outcome(discs=[Disc], labels=[str], nontrivial=bool)
    sweeps(tier)   (optional) -> list of (name, iterable-of-cases, exhaustive: bool)
    extra_stages(tier, ctx) (optional) -> dict merged into coverage (e.g. atheris)

Every discrepancy carries `finding`: the id of a known finding whose *input predicate
and discrepancy kind* both match (computed by the check from the case, never from an
exception message), or None.  Only findings listed as open in known_findings.json are
tolerated; everything else is a violation.
"""
import hashlib
import json
import os
import sys
import time
import traceback

VERIF = os.path.dirname(os.path.dirname(os.path.abspath(__file__)))
KNOWN_FILE = os.path.join(VERIF, 'known_findings.json')
# scratch (sensitivity) runs must not overwrite evidence about /repo
OUT = os.environ.get('VERIF_OUT', VERIF)


class HarnessError(Exception):
    """A fault of the machinery (not of the code under test): exit 2."""


class Disc(object):
    """One discrepancy between implementation and oracle."""
    __slots__ = ('kind', 'detail', 'finding')

    def __init__(self, kind, detail, finding=None):
        self.kind = kind
        self.detail = detail
        self.finding = finding

    def to_json(self):
        return {'kind': self.kind, 'detail': self.detail, 'finding': self.finding}


class Outcome(object):
    __slots__ = ('discs', 'labels', 'nontrivial')

    def __init__(self, discs=None, labels=None, nontrivial=False):
        self.discs = discs or []
        self.labels = labels or []
        self.nontrivial = nontrivial


def canon(case):
    return json.dumps(case, sort_keys=True, separators=(',', ':'))


def digest(case):
    return hashlib.sha1(canon(case).encode()).hexdigest()


def load_known():
    """-> (open: {id: entry}, fixed: [entries])."""
    if not os.path.exists(KNOWN_FILE):
        return {}, []
    with open(KNOWN_FILE) as fh:
        data = json.load(fh)
    opened = {}
    for e in data.get('findings', []):
        opened[e['id']] = e
    return opened, data.get('fixed', [])


class CaseHang(BaseException):
    """Raised by the real-time watchdog inside the code under test when one case does not come back."""


HANG_S = float(os.environ.get('VERIF_HANG_S', '600'))


def _on_alarm(signum, frame):
    raise CaseHang()


def guarded(fn, case):
    """fn(case) under a real-time watchdog (main thread only): a case takes milliseconds to a few seconds, so one that is still
    running after HANG_S seconds is code under test that loops without end - which every property that speaks about
    'hangs', 'stops serving' or 'bounded time' forbids.  The alarm repeats so that it also gets out of handlers that swallow it."""
    import signal
    import threading
    if threading.current_thread() is not threading.main_thread() or not hasattr(signal, 'setitimer'):
        return fn(case)
    old = signal.signal(signal.SIGALRM, _on_alarm)
    signal.setitimer(signal.ITIMER_REAL, HANG_S, 2.0)
    try:
        try:
            return fn(case)
        finally:
            signal.setitimer(signal.ITIMER_REAL, 0)
    except CaseHang:
        signal.setitimer(signal.ITIMER_REAL, 0)
        return Outcome([Disc('no-termination', 'the case was still running after %.0f s of real time (cases take milliseconds): the code under test '
                                               'loops without end' % HANG_S)], ['watchdog'], True)
    finally:
        signal.signal(signal.SIGALRM, old)


class _StopSearch(KeyboardInterrupt):
    """Raised through Hypothesis to end shrinking when its time budget is used."""


def _sample_of(case, limit=20000):
    """cases kept as samples in the evidence file; a very large case (a history of thousands of requests) is abbreviated"""
    text = canon(case)
    if len(text) <= limit:
        return case
    return {'abbreviated_case': True, 'sha1': digest(case), 'json_length': len(text), 'head': text[:2000]}


class Stats(object):
    def __init__(self):
        self.evaluations = 0
        self.nontrivial = set()
        self.labels = {}
        self.known_hits = {}
        self.known_examples = {}
        self.samples = []
        self.sweeps = {}
        self.inconclusive = []

    def account(self, case, out, keep_sample):
        self.evaluations += 1
        if out.nontrivial:
            self.nontrivial.add(digest(case)[:16])
        for l in out.labels:
            self.labels[l] = self.labels.get(l, 0) + 1
        if keep_sample:
            self.samples.append(_sample_of(case))

    def merge(self, other):
        self.evaluations += other['evaluations']
        self.nontrivial.update(other['nontrivial'])
        for k, v in other['labels'].items():
            self.labels[k] = self.labels.get(k, 0) + v
        for k, v in other['known_hits'].items():
            self.known_hits[k] = self.known_hits.get(k, 0) + v
        for k, v in other['known_examples'].items():
            self.known_examples.setdefault(k, v)
        self.samples.extend(other['samples'][:3])
        for k, v in other['sweeps'].items():
            if k in self.sweeps:
                self.sweeps[k]['cases'] += v['cases']
            else:
                self.sweeps[k] = v
        self.inconclusive.extend(other['inconclusive'])

    def export(self):
        return {'evaluations': self.evaluations, 'nontrivial': list(self.nontrivial),
                'labels': self.labels, 'known_hits': self.known_hits,
                'known_examples': self.known_examples, 'samples': self.samples,
                'sweeps': self.sweeps, 'inconclusive': self.inconclusive}


class Violation(Exception):
    def __init__(self, case, discs):
        Exception.__init__(self, discs[0].kind if discs else 'violation')
        self.case = case
        self.discs = discs


def _sample_slots(n):
    # keep first, then exponentially spaced indices, so samples stay small
    slots = set([0, 1, 2])
    k = 4
    while k < 10 ** 9:
        slots.add(k)
        k *= 3
    return slots


_SLOTS = _sample_slots(0)


class Runner(object):
    """Executes cases of one check module in this process."""

    def __init__(self, mod, tier):
        self.mod = mod
        self.tier = tier
        self.stats = Stats()
        self.known, _ = load_known()
        self.fail = None     # (case, discs) most recent (= smallest so far) failing case
        self.shrink_deadline = None
        self.debug = False   # this runner's generated cases run with DEBUG logging enabled (the flag travels inside the case)

    def judge(self, case, keep_sample=None):
        """Run one case; return list of unknown discrepancies."""
        debug_logging(isinstance(case, dict) and bool(case.get('_debug_logging')))
        try:
            out = guarded(self.mod.run_case, case)
        except HarnessError:
            raise
        finally:
            debug_logging(False)
        if keep_sample is None:
            keep_sample = self.stats.evaluations in _SLOTS and len(self.stats.samples) < 12
        self.stats.account(case, out, keep_sample)
        bad = []
        for d in out.discs:
            f = d.finding
            if f is not None and f in self.known and \
                    self.mod.PID in self.known[f].get('properties', []):
                self.stats.known_hits[f] = self.stats.known_hits.get(f, 0) + 1
                self.stats.known_examples.setdefault(f, {'case': _sample_of(case), 'disc': d.to_json()})
            else:
                bad.append(d)
        return bad

    def hypothesis_stage(self, seed, max_examples, shrink_budget_s):
        import hypothesis
        from hypothesis import given, settings, HealthCheck, Phase
        strat = self.mod.strategy(self.tier)
        runner = self

        @hypothesis.seed(seed)
        @settings(max_examples=max_examples, database=None, deadline=None,
                  derandomize=False, report_multiple_bugs=False,
                  suppress_health_check=list(HealthCheck),
                  phases=[Phase.generate, Phase.shrink], print_blob=False)
        @given(strat)
        def prop(case):
            if runner.debug and isinstance(case, dict):
                case = dict(case, _debug_logging=True)
            bad = runner.judge(case)
            if bad:
                if runner.fail is None:
                    runner.shrink_deadline = time.time() + shrink_budget_s
                runner.fail = (case, bad)
                if time.time() > runner.shrink_deadline:
                    raise _StopSearch()
                raise Violation(case, bad)
            elif runner.fail is not None and time.time() > runner.shrink_deadline:
                raise _StopSearch()

        try:
            prop()
        except Violation:
            pass
        except _StopSearch:
            pass
        except BaseException as e:  # hypothesis wraps/annotates; make sure we know why
            if self.fail is None:
                raise
        return self.fail

    def sweep_stage(self, deadline=None):
        if not hasattr(self.mod, 'sweeps'):
            return None
        for name, cases, exhaustive in self.mod.sweeps(self.tier):
            n = 0
            complete = True
            for case in cases:
                if deadline and time.time() > deadline:
                    complete = False
                    self.stats.inconclusive.append('sweep %s stopped by time budget after %d cases' % (name, n))
                    break
                bad = self.judge(case, keep_sample=(n == 0))
                n += 1
                if bad:
                    self.fail = (case, bad)
                    self.stats.sweeps[name] = {'cases': n, 'exhaustive': False}
                    return self.fail
            self.stats.sweeps[name] = {'cases': n, 'exhaustive': bool(exhaustive and complete)}
        return None


def debug_logging(on):
    """pymodbus behaves differently in places when DEBUG logging is enabled (blocks guarded by isEnabledFor, records
    built from message fields): every fourth shard runs its cases with all loggers at DEBUG into a null handler; the
    flag is stored in the case ('_debug_logging') so that a replay runs the same way."""
    import logging
    root = logging.getLogger()
    if on:
        logging.disable(logging.NOTSET)
        root.handlers[:] = [logging.NullHandler()]
        root.setLevel(logging.DEBUG)
    else:
        logging.disable(logging.CRITICAL)


def _shard_main(args):
    modname, tier, seed, max_examples, shrink_budget = args
    import importlib
    mod = importlib.import_module(modname)
    r = Runner(mod, tier)
    r.debug = (seed % 4 == 3 and os.environ.get('VERIF_NO_DEBUG_LOGGING') != '1')
    try:
        fail = r.hypothesis_stage(seed, max_examples, shrink_budget)
    except HarnessError as e:
        return {'harness_error': repr(e), 'stats': r.stats.export(), 'fail': None}
    except Exception as e:
        return {'harness_error': 'shard crashed: %s\n%s' % (repr(e), traceback.format_exc()),
                'stats': r.stats.export(), 'fail': None}
    f = None
    if fail:
        f = {'case': fail[0], 'discs': [d.to_json() for d in fail[1]]}
    return {'stats': r.stats.export(), 'fail': f}


def survey(modname, tier, seed, n):
    """Development aid: run n generated cases + sweeps without stopping, bucket every
    discrepancy by (kind, finding, first label) and print one example per bucket."""
    import importlib
    import hypothesis
    from hypothesis import given, settings, HealthCheck, Phase
    mod = importlib.import_module(modname)
    buckets = {}

    def note(case):
        out = mod.run_case(case)
        for d in out.discs:
            key = (d.kind, d.finding, ' '.join(out.labels[:int(os.environ.get('SURVEY_LABELS', '2'))]))
            b = buckets.setdefault(key, [0, None, None])
            b[0] += 1
            if b[1] is None or len(canon(case)) < len(canon(b[1])):
                b[1], b[2] = case, d.detail
    if hasattr(mod, 'sweeps'):
        for name, cases, _ in mod.sweeps(tier):
            for c in cases:
                note(c)

    @hypothesis.seed(seed)
    @settings(max_examples=n, database=None, deadline=None, suppress_health_check=list(HealthCheck),
              phases=[Phase.generate])
    @given(mod.strategy(tier))
    def prop(case):
        note(case)
    prop()
    for key in sorted(buckets, key=str):
        cnt, case, detail = buckets[key]
        print('%6d  %s' % (cnt, key))
        print('        e.g. %s' % canon(case)[:300])
        print('        %s' % str(detail)[:300])
    return 0


def write_replay(pid, case, discs):
    d = os.path.join(OUT, 'replays')
    os.makedirs(d, exist_ok=True)
    path = os.path.join(d, '%s-%s.json' % (pid, digest(case)[:12]))
    with open(path, 'w') as fh:
        json.dump({'property': pid, 'case': case,
                   'discrepancies': [x if isinstance(x, dict) else x.to_json() for x in discs]},
                  fh, indent=1, sort_keys=True)
    return path


def write_evidence(mod, tier, seed, stats, wall, violations, extra=None):
    cov = {
        'evaluations': stats.evaluations,
        'distinct_nontrivial': len(stats.nontrivial),
        'rule': mod.RULE,
        'samples': stats.samples[:12] or [],
        'label_histogram': dict(sorted(stats.labels.items())),
        'known_findings_hit': dict(sorted(stats.known_hits.items())),
        'sweeps': stats.sweeps,
        'exhaustive': False,
    }
    if stats.inconclusive:
        cov['inconclusive'] = stats.inconclusive
    if extra:
        cov.update(extra)
    ev = {
        'property_id': mod.PID, 'tier': tier, 'seed': seed, 'level': 'exploration',
        'coverage': cov, 'assumptions': list(getattr(mod, 'ASSUMPTIONS', [])),
        'wall_s': round(wall, 2), 'violations': violations,
    }
    d = os.path.join(OUT, 'evidence')
    os.makedirs(d, exist_ok=True)
    path = os.path.join(d, '%s.json' % mod.PID)
    tmp = path + '.tmp'
    with open(tmp, 'w') as fh:
        json.dump(ev, fh, indent=1, sort_keys=True, default=str)
    os.replace(tmp, path)
    try:
        import jsonschema  # optional: present in the tooling venv only
        with open('/root/.vp/EVIDENCE.schema.json') as fh:
            jsonschema.validate(ev, json.load(fh))
    except ImportError:
        pass
    except FileNotFoundError:
        pass
    return path


def run(modname, tier, seed, replay=None):
    """Main entry. Returns process exit code."""
    import importlib
    t0 = time.time()
    mod = importlib.import_module(modname)
    pid = mod.PID
    known, fixed = load_known()

    if replay:
        with open(replay) as fh:
            data = json.load(fh)
        case = data['case'] if isinstance(data, dict) and 'case' in data else data
        r = Runner(mod, tier)
        bad = r.judge(case, keep_sample=True)
        for f, n in sorted(r.stats.known_hits.items()):
            print('KNOWN-FINDING: property=%s %s: %s' % (pid, f, known[f]['what']))
        if bad:
            for d in bad:
                print('  discrepancy: %s: %s' % (d.kind, d.detail))
            print('VIOLATION property=%s replay=%s' % (pid, replay))
            return 1
        print('replay: property held on this case')
        return 0

    budget = mod.BUDGET[tier]
    shrink_budget = 60 if tier == 'quick' else 240
    stats = Stats()
    fail = None
    extra = {}

    # stage 0: saved inputs (regress/<PID>__*.json: shrunk failing cases of defects that were once found or seeded) - seconds
    r = Runner(mod, tier)
    nreg = 0
    if os.environ.get('VERIF_NO_REGRESS') != '1':
        import glob
        for path in sorted(glob.glob(os.path.join(VERIF, 'regress', '%s__*.json' % pid))):
            with open(path) as fh:
                data = json.load(fh)
            case = data['case'] if isinstance(data, dict) and 'case' in data else data
            nreg += 1
            bad = r.judge(case, keep_sample=False)
            if bad:
                fail = {'case': case, 'discs': [d.to_json() for d in bad]}
                break
    extra['saved_inputs_replayed'] = nreg

    # stage 1: deterministic sweeps (exhaustive sub-domains), in-process
    sweep_deadline = t0 + (getattr(mod, 'SWEEP_BUDGET_S', {}).get(tier, 600))
    f = None if fail else r.sweep_stage(sweep_deadline)
    stats.merge(r.stats.export())
    if f:
        fail = {'case': f[0], 'discs': [d.to_json() for d in f[1]]}

    # stage 2: hypothesis search
    if fail is None:
        if tier == 'quick':
            nsh = int(os.environ.get('VERIF_SHARDS', getattr(mod, 'QUICK_SHARDS', 4)))
        else:
            nsh = int(os.environ.get('VERIF_SHARDS', 16))
        per = max(1, budget // nsh) if tier == 'quick' else budget
        jobs = [(modname, tier, seed * 1000 + i, per, shrink_budget) for i in range(nsh)]
        if nsh == 1:
            results = [_shard_main(jobs[0])]
        else:
            import multiprocessing
            ctx = multiprocessing.get_context('fork')
            with ctx.Pool(min(nsh, 16)) as pool:
                results = pool.map(_shard_main, jobs)
        for res in results:
            stats.merge(res['stats'])
        for res in results:
            if res.get('harness_error'):
                print('HARNESS-ERROR %s' % res['harness_error'])
                return 2
        fails = [res['fail'] for res in results if res['fail']]
        if fails:
            fails.sort(key=lambda x: len(canon(x['case'])))
            fail = fails[0]

    # stage 3: optional extra stages (e.g. atheris)
    if fail is None and hasattr(mod, 'extra_stages'):
        ex = mod.extra_stages(tier, seed)
        if ex:
            xfail = ex.pop('fail', None)
            extra.update(ex)
            if xfail:
                # re-judge through the normal path so known findings are honoured
                r2 = Runner(mod, tier)
                bad = r2.judge(xfail, keep_sample=True)
                stats.merge(r2.stats.export())
                if bad:
                    fail = {'case': xfail, 'discs': [d.to_json() for d in bad]}

    for fid, n in sorted(stats.known_hits.items()):
        print('KNOWN-FINDING: property=%s %s: %s (absorbed %d cases)' % (pid, fid, known[fid]['what'], n))

    violations = 0
    rc = 0
    if fail:
        violations = 1
        # confirm deterministically by direct replay in a fresh runner
        path = write_replay(pid, fail['case'], fail['discs'])
        stats.samples.append({'violating_case': _sample_of(fail['case'], 200000)})
        for d in fail['discs']:
            print('  discrepancy: %s: %s' % (d['kind'], d['detail']))
        print('VIOLATION property=%s replay=%s' % (pid, os.path.relpath(path, OUT)))
        rc = 1
    if stats.evaluations == 0:
        print('HARNESS-ERROR no case was evaluated')
        return 2
    write_evidence(mod, tier, seed, stats, time.time() - t0, violations, extra)
    print('%s %s seed=%d: %d cases, %d distinct non-trivial, %.1fs, %s' % (
        pid, tier, seed, stats.evaluations, len(stats.nontrivial), time.time() - t0,
        'VIOLATION' if rc else 'held'))
    return rc


def atheris_stage(pid, tier, seed, runs, seeds=None, max_len=420):
    """Run fuzz/target.py as a subprocess (libFuzzer, -runs bounded). Returns a coverage dict and
    possibly {'fail': case}.  Skipped (and said so) when atheris cannot be imported."""
    import shutil
    import subprocess
    import tempfile
    work = tempfile.mkdtemp(prefix='verif_fuzz_')
    out = {'atheris': {'runs_requested': runs}}
    try:
        probe = subprocess.run([sys.executable, '-c', 'import sys; sys.path.append(%r); import atheris' % os.path.join(VERIF, '.deps')],
                               capture_output=True, text=True)
        if probe.returncode != 0:
            out['atheris'] = {'skipped': 'atheris not importable: ' + probe.stderr.strip()[-200:]}
            return out
        total_execs = 0
        for variant in ('seeded', 'empty'):
            corpus = os.path.join(work, 'corpus_' + variant)
            os.makedirs(corpus)
            if variant == 'seeded':
                for i, s in enumerate(seeds or []):
                    with open(os.path.join(corpus, 'seed%03d' % i), 'wb') as fh:
                        fh.write(s)
            artifact = os.path.join(work, 'fail_%s.json' % variant)
            cmd = [sys.executable, os.path.join(VERIF, 'fuzz', 'target.py'), pid, artifact, corpus,
                   '-runs=%d' % runs, '-seed=%d' % (seed or 1), '-max_len=%d' % max_len, '-artifact_prefix=%s/' % work,
                   '-print_final_stats=1', '-verbosity=0']
            env = dict(os.environ)
            r = subprocess.run(cmd, capture_output=True, text=True, env=env, timeout=3600)
            execs = 0
            for line in (r.stderr + r.stdout).splitlines():
                if 'stat::number_of_executed_units' in line:
                    execs = int(line.split(':')[-1])
            total_execs += execs
            out['atheris'][variant] = {'executions': execs, 'corpus_files': len(os.listdir(corpus)), 'exit': r.returncode}
            if os.path.exists(artifact):
                with open(artifact) as fh:
                    out['fail'] = json.load(fh)['case']
                break
            if r.returncode != 0:
                out['atheris'][variant]['note'] = 'libFuzzer exited %d without an oracle artifact: %s' % (r.returncode, (r.stderr or '')[-300:])
        out['atheris']['executions'] = total_execs
        return out
    finally:
        shutil.rmtree(work, ignore_errors=True)
