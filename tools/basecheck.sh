#!/bin/bash
# usage: basecheck.sh <repo-root>   -> prints missing baseline passes
ROOT=${1:-/repo}
OUT=$(mktemp /tmp/junit.XXXXXX.xml)
cd $ROOT && PYTHONPATH=$ROOT /venv/bin/python -m pytest -ra -q -p no:cacheprovider --timeout=900 --continue-on-collection-errors --junitxml=$OUT >/dev/null 2>&1
/venv/bin/python - "$OUT" <<'PY'
import sys, json, xml.etree.ElementTree as ET
base = set(json.load(open('/root/.vp/BASELINE.json'))['stable_pass'])
t = ET.parse(sys.argv[1]); passed=set()
for tc in t.iter('testcase'):
    if not any(c.tag in ('failure','error','skipped') for c in tc):
        passed.add(tc.get('classname')+'::'+tc.get('name'))
missing = sorted(base-passed)
print('baseline', len(base), 'passed-now', len(passed), 'missing', len(missing))
for m in missing: print("  MISSING", m)
sys.exit(1 if missing else 0)
PY
RC=$?
rm -f $OUT
exit $RC
