"""C09 Server sends exactly one matching response per accepted request."""
from hypothesis import strategies as st

from vlib import frontends, gens, kinds, model, pm, refframe, specpdu
from vlib.engine import Disc, Outcome

PID = 'C09'
RULE = ('Hypothesis: front-end (sync TCP/serial/UDP, asyncio TCP/UDP, Twisted TCP/UDP) x framing (tcp, rtu, ascii, binary; tls '
        'with single context) x context (single / multi with hosted set of 1..4 ids) x ignore_missing_slaves x '
        'broadcast_enable x history of 1..6 well-formed requests of every kind (data access valid and invalid, diagnostics, '
        'file/fifo/MEI, unassigned function codes; units hosted, absent, 0; at most one Force-Listen-Only and only last) x '
        'delivery (one request per read or several per read; datagrams one per packet). Oracle: every send must parse as '
        'exactly one frame (independent parser); the sequence must match in order: one response (request tid on TCP, unit, '
        'fc or fc|0x80) per request to a hosted unit (any unit in single mode); none for broadcast-enabled unit 0, absent '
        'units under ignore_missing_slaves and listen-only; absent unit otherwise: nothing or one gateway exception 0x0A/0x0B '
        'with the request ids. Non-trivial: >=2 requests in one read or a request for which silence is expected; distinct by SHA-1. Datagram cases may have two senders with back-to-back arrival (answers judged per sender); most multi-unit contexts do not host unit 0; sweep of 250 (thorough 600) requests on one long-lived connection of every front-end.')
ASSUMPTIONS = ['every send()/write()/sendto() call must carry one or more WHOLE response frames (a front-end may coalesce pipelined responses)',
               'Twisted reactor semantics as modelled in vlib/frontends.py; Twisted front-ends have no broadcast option',
               'binary-framing histories containing a delimiter byte inside a frame are excluded and counted (KF-BINARY-FRAMER-DELIMITER-BYTES is judged by C03/C06)']
BUDGET = {'quick': 5000, 'thorough': 8000}

SMALL_LAYOUT = {'zero_mode': True, 'share': None,
                'tables': dict((k, {'shape': 'seq', 'start': 0, 'values': [False if k in 'cd' else 0] * 40}) for k in 'cdhi')}
REQ_KINDS = [k for k in kinds.ALL_KINDS if k.startswith('req')]


@st.composite
def _request_pdu(draw, framing):
    which = draw(st.sampled_from(['data', 'data', 'any', 'any', 'unassigned', 'raising']))
    if which == 'raising':
        # well-formed requests of supported functions whose execution fails inside the server (-> exception 04)
        return draw(st.sampled_from(['0800630000', '0800050001', '0800160000', '2b0e0500', '2b0e0000', '2b0e04ff'])) 
    if which == 'unassigned':
        fc = draw(st.sampled_from([9, 10, 13, 14, 18, 19, 25, 42, 44, 65, 100, 127]))
        # RTU has no length field: a frame of an unknown function is taken to be 5 bytes long, so only
        # 2-byte PDUs of unknown functions are expressible on RTU
        return (bytes([fc]) + draw(st.binary(min_size=1, max_size=1) if framing == 'rtu' else st.binary(max_size=4))).hex()
    if which == 'data':
        fc = draw(st.sampled_from(model.DATA_FCS))
        a = draw(st.sampled_from([0, 1, 5, 38, 39, 40, 41, 100]))
        q = draw(st.sampled_from([1, 1, 2, 3, 8, 0, 200]))
        if fc in (1, 2, 3, 4):
            f = {'address': a, 'quantity': q}
        elif fc == 5:
            f = {'address': a, 'value': draw(st.sampled_from([0xFF00, 0]))}
        elif fc == 6:
            f = {'address': a, 'value': draw(st.integers(0, 0xFFFF))}
        elif fc == 15:
            f = {'address': a, 'bits': draw(st.lists(st.booleans(), min_size=1, max_size=10))}
        elif fc == 16:
            f = {'address': a, 'registers': draw(st.lists(st.integers(0, 0xFFFF), min_size=1, max_size=4))}
        elif fc == 22:
            f = {'address': a, 'and_mask': draw(st.integers(0, 0xFFFF)), 'or_mask': draw(st.integers(0, 0xFFFF))}
        else:
            f = {'read_address': a, 'read_quantity': max(1, min(q, 5)), 'write_address': draw(st.sampled_from([0, 3, 39, 40])),
                 'registers': draw(st.lists(st.integers(0, 0xFFFF), min_size=1, max_size=3))}
        return specpdu.encode('req:%d' % fc, f).hex()
    kind = draw(st.sampled_from(REQ_KINDS))
    f = draw(gens.fields(kind, spec_mode=False))
    if kind == 'req:8':
        if f['sub'] == 4:
            f = {'sub': 10, 'data': [0]}
        f = dict(f, data=f['data'][:1])
    return specpdu.encode(kind, f).hex()


@st.composite
def _case(draw):
    fe = draw(st.sampled_from(frontends.ALL))
    single = draw(st.booleans())
    framing = draw(st.sampled_from(['tcp', 'tcp', 'rtu', 'ascii', 'binary'] + (['tls'] if single and fe in frontends.STREAM else [])))
    # hosting unit 0 (or 255) switches the framers' unit filter off, so most multi-unit contexts are drawn without it
    pool = draw(st.sampled_from([[1, 2, 3, 17, 247], [1, 2, 3, 17, 247], [1, 2, 3, 17, 247], [0, 1, 2, 3, 17, 247]]))
    hosted = sorted(draw(st.lists(st.sampled_from(pool), min_size=1, max_size=4, unique=True))) if not single else [0]
    ignore = draw(st.booleans())
    bcast = draw(st.booleans()) if frontends.HAS_BROADCAST[fe] and framing != 'tls' else False
    n = draw(st.integers(1, 6))
    reqs = []
    for i in range(n):
        uid = draw(st.one_of(st.sampled_from(hosted), st.sampled_from([0, 1, 2, 3, 9, 17, 200, 247, 255])))
        reqs.append({'uid': uid, 'tid': draw(st.one_of(st.integers(0, 0xFFFF), st.just(i + 1))), 'pdu': draw(_request_pdu(framing))})
    if draw(st.integers(0, 9)) == 0:
        reqs.append({'uid': draw(st.sampled_from(hosted)), 'tid': 77, 'pdu': '08000400' + '00'})
    if fe in frontends.DATAGRAM or framing == 'tls':
        groups = [1] * len(reqs)
    else:
        groups = []
        left = len(reqs)
        while left:
            k = min(left, draw(st.sampled_from([1, 1, 2, 3])))
            groups.append(k)
            left -= k
    case = {'frontend': fe, 'framing': framing, 'single': single, 'hosted': hosted, 'ignore_missing_slaves': ignore,
            'broadcast_enable': bcast, 'requests': reqs, 'groups': groups}
    if fe in frontends.DATAGRAM and draw(st.booleans()):
        # datagrams of two senders, some of them arriving back to back before the server gets a turn: every answer goes to
        # the sender of its request
        case['peers'] = draw(st.lists(st.integers(0, 1), min_size=len(reqs), max_size=len(reqs)))
        case['burst'] = draw(st.lists(st.booleans(), min_size=len(reqs), max_size=len(reqs)))
    if fe in frontends.STREAM and framing != 'tls' and draw(st.integers(0, 2)) == 0:
        # the same request stream cut at arbitrary byte positions, with idle receive time-outs while no frame is pending
        case['cuts'] = draw(gens.cuts())
        case['idle'] = draw(st.lists(st.integers(0, 12), min_size=0, max_size=3))
    return case


def strategy(tier):
    return _case()


def sweeps(tier):
    """Long-lived connections: some hundred requests on one connection of every front-end (one per read and pipelined)."""
    n = 600 if tier == 'thorough' else 250
    cases = []
    for fe in frontends.ALL:
        for framing in (('tcp', 'rtu') if fe != 'sync_serial' else ('rtu', 'ascii')):
            reqs = []
            for i in range(n):
                fc = (3, 6, 1, 16, 4, 5)[i % 6]
                if fc in (1, 3, 4):
                    pdu = specpdu.encode('req:%d' % fc, {'address': i % 39, 'quantity': 1})
                elif fc == 6:
                    pdu = specpdu.encode('req:6', {'address': i % 40, 'value': (i * 263) & 0xFFFF})
                elif fc == 5:
                    pdu = specpdu.encode('req:5', {'address': i % 40, 'value': 0xFF00 if i % 4 else 0})
                else:
                    pdu = specpdu.encode('req:16', {'address': i % 38, 'registers': [i & 0xFFFF, 7]})
                reqs.append({'uid': 1, 'tid': (65400 + i) & 0xFFFF, 'pdu': pdu.hex()})
            for k in ((1,) if fe in frontends.DATAGRAM else (1, 3)):
                groups = [k] * (n // k) + ([n % k] if n % k else [])
                cases.append({'frontend': fe, 'framing': framing, 'single': False, 'hosted': [1, 2], 'ignore_missing_slaves': False,
                              'broadcast_enable': False, 'requests': reqs, 'groups': groups})
    out = [('long-lived-connection-%d-requests' % n, cases, False)]
    # more responses than a 16-bit counter can count, on one connection of every stream front-end
    big = []
    pdu = specpdu.encode('req:3', {'address': 1, 'quantity': 1}).hex()
    for fe in frontends.STREAM:
        reqs = [{'uid': 1, 'tid': i & 0xFFFF, 'pdu': pdu} for i in range(66000)]
        big.append({'frontend': fe, 'framing': 'rtu' if fe == 'sync_serial' else 'tcp', 'single': False, 'hosted': [1, 2], 'ignore_missing_slaves': False,
                    'broadcast_enable': False, 'requests': reqs, 'groups': [500] * 132})
    out.append(('66000-requests-on-one-connection', big, False))
    return out


def make_context(single, hosted, layout=SMALL_LAYOUT, slave_class=None):
    from pymodbus.datastore import ModbusServerContext
    if single:
        return ModbusServerContext(slaves=model.make_slave(layout, slave_class), single=True)
    return ModbusServerContext(slaves=dict((u, model.make_slave(layout, slave_class)) for u in hosted), single=False)


def accepted_by_filter(uid, single, hosted, bcast):
    """The documented unit filter of the framers: single -> all; 0 or 0xFF among the units -> all; else membership."""
    units = list(hosted) + ([0] if bcast and 0 not in hosted else [])
    if single:
        return True
    if 0 in units or 0xFF in units:
        return True
    return uid in units


def run_case(case):
    pm.reset_globals()
    fe, framing = case['frontend'], case['framing']
    single, hosted, ignore, bcast = case['single'], case['hosted'], case['ignore_missing_slaves'], case['broadcast_enable']
    labels = ['frontend:' + fe, 'framing:' + framing, 'single:%s' % single, 'ignore:%s' % ignore, 'bcast:%s' % bcast]
    reqs = case['requests']
    frames = [refframe.build(framing, r['uid'], bytes.fromhex(r['pdu']), r['tid'], 0) for r in reqs]
    if framing == 'binary' and any(refframe.binary_fragile(fr) for fr in frames):
        return Outcome([], labels + ['excluded-binary-delimiter'], False)
    script = []
    i = 0
    peers = case.get('peers') or [0] * len(reqs)
    peers = (list(peers) + [0] * len(reqs))[:len(reqs)]
    burst = case.get('burst') or []
    for k in case['groups']:
        if case.get('peers') and k == 1:
            if i < len(burst) and burst[i] and i + 1 < len(reqs):
                script.append((peers[i], frames[i], 'burst'))
            else:
                script.append((peers[i], frames[i]))
        else:
            script.append((0, b''.join(frames[i:i + k])))
        i += k
    if case.get('peers'):
        labels.append('two-senders')
    multi_read = any(k > 1 for k in case['groups'])
    if case.get('cuts'):
        labels.append('byte-level-cuts')
        bounds, acc = set([0]), 0
        for fr_ in frames:
            acc += len(fr_)
            bounds.add(acc)
        script, done = [], 0
        idle = set(case.get('idle') or [])
        for n_, chunk in enumerate(c for c in gens.apply_cuts(b''.join(frames), case['cuts']) if c):
            if n_ in idle and done in bounds:
                script.append((0, None))
            script.append((0, chunk))
            done += len(chunk)
        multi_read = True
    ctx = make_context(single, hosted)
    res = frontends.run(fe, framing, ctx, script, ignore_missing_slaves=ignore, broadcast_enable=bcast)
    discs = []
    for c, e in res.escaped:
        discs.append(Disc('escaped', '%s/%s: exception left the serving code: %s' % (fe, framing, e)))
    if res.hung:
        discs.append(Disc('hung', '%s/%s: handler did not come back' % (fe, framing)))
    silent = False
    for peer_ in sorted(set(peers)) if case.get('peers') else [0]:
        silent = _judge_peer(case, labels, discs, res.sent.get(peer_, []), [r for r, p_ in zip(reqs, peers) if p_ == peer_], reqs, multi_read) or silent
        if discs:
            break
    pm.reset_globals()
    return Outcome(discs, labels, multi_read or silent)


def _judge_peer(case, labels, discs, sent, mine, reqs, multi_read):
    """one sender's requests (in order) against what was sent back to that sender; returns True when silence was expected somewhere"""
    fe, framing = case['frontend'], case['framing']
    single, hosted, ignore, bcast = case['single'], case['hosted'], case['ignore_missing_slaves'], case['broadcast_enable']
    # expected sequence
    expect = []
    silent = False
    for r in mine:
        pdu = bytes.fromhex(r['pdu'])
        uid = r['uid']
        is_listen_only = pdu[:3] == b'\x08\x00\x04'
        if framing == 'tls':
            want = 'one'
        elif bcast and uid == 0:
            want = 'none'
        elif single or uid in hosted:
            want = 'one'
        elif ignore:
            want = 'none'
        else:
            want = 'optional-gateway'
        if is_listen_only and want == 'one':
            want = 'none'
        if want != 'one':
            silent = True
        expect.append((want, r, pdu))
    parsed = []
    for s in sent:
        try:
            parsed.extend(refframe.parse_many(framing, s))       # one write may carry several whole response frames
        except refframe.FrameError as e:
            discs.append(Disc('not-a-frame', '%s/%s: bytes written that are not one response frame (%s): %s' % (fe, framing, e, s.hex()[:80])))
            parsed = None
            break
    if parsed is not None and not discs:
        j = 0
        for want, r, pdu in expect:
            nxt = parsed[j] if j < len(parsed) else None

            def matches(p, gateway_only=False):
                if p is None or len(p['pdu']) < 1:
                    return False
                if framing != 'tls' and p['uid'] != r['uid']:
                    return False
                if framing == 'tcp' and p['tid'] != r['tid']:
                    return False
                fc = p['pdu'][0]
                if gateway_only:
                    return fc == (pdu[0] | 0x80) and len(p['pdu']) == 2 and p['pdu'][1] in (0x0A, 0x0B)
                return fc in (pdu[0], pdu[0] | 0x80)
            if want == 'one':
                if not matches(nxt):
                    discs.append(Disc('missing-or-wrong-response',
                                      '%s/%s: request #%d (unit %d tid %d pdu %s) expects one response; next frame written: %s' % (
                                          fe, framing, reqs.index(r), r['uid'], r['tid'], r['pdu'][:24],
                                          None if nxt is None else (nxt['uid'], nxt['tid'], nxt['pdu'].hex()[:24])),
                                      _finding(case, reqs.index(r), multi_read)))
                    break
                j += 1
            elif want == 'optional-gateway':
                if matches(nxt, gateway_only=True):
                    j += 1
        else:
            if j < len(parsed):
                p = parsed[j]
                discs.append(Disc('unsolicited', '%s/%s: extra frame written that answers no request: %s' % (fe, framing, (p['uid'], p['tid'], p['pdu'].hex()[:24]))))
    return silent


def _finding(case, idx, multi_read):
    return None
