"""C07 Corrupted frames are never delivered as messages."""
from hypothesis import strategies as st

from vlib import frontends, gens, model, pm, refframe, specpdu
from vlib.engine import Disc, Outcome
from checks import c09, c12

PID = 'C07'
RULE = ('Hypothesis: a valid stream of 1..3 write-request frames (distinct cells, distinct values) on rtu / ascii / binary / tcp, '
        'a list of 1..4 mutations (1-3 bit flips, <=16-bit bursts, byte substitution biased to delimiters, hex digits, blanks, '
        'signs, deletion, insertion, truncation, extension) and a chunking. Oracle: a recording decoder proxy captures the exact '
        '(unit, PDU bytes) the framer hands to the decoder; (A) every delivery must be JUSTIFIED: the independent reference must '
        'find that very frame, with correct CRC / LRC + strict hex / MBAP length = len(pdu)+1, as a contiguous substring of the '
        'bytes fed so far; (B) when the independent finder sees no valid frame at all in the mutated stream nothing may be '
        'delivered (this covers every checksum-detectable corruption of a lone frame); (C) the same stream through the sync '
        'serial server handler: every changed cell must be explained by a well-formed write inside a checksum-valid frame. '
        'Sweeps: every single-bit flip (thorough: and double flips) of frames on each framing, every single-character '
        'substitution (all 256 values) of ASCII frames. Non-trivial: the mutated stream differs from the original inside a '
        'frame; distinct by SHA-1. Frames of every message type in both decoder directions are used as well; on TCP a fixed-size message delivered from a frame whose MBAP length covers another number of bytes is unjustified (sweep of all length-field corruptions of every fixed-size kind with bytes behind the frame).')
ASSUMPTIONS = ['one-directional by design: losing a valid neighbour of a corrupted frame is C11\'s business',
               'the caller is a server hosting the unit (unit=[uid], single=False) that resets the framer when the receive call raises, as the serial handler does']
BUDGET = {'quick': 6000, 'thorough': 15000}
FRAMINGS = ['rtu', 'ascii', 'binary', 'tcp']


@st.composite
def _stream(draw, framing, uid):
    n = draw(st.integers(1, 3))
    frames = []
    for i in range(n):
        pdu = draw(c12._valid_write(i))
        frames.append(refframe.build(framing, uid, pdu, 0x1100 + i, 0))
    return frames


@st.composite
def _any_stream(draw, framing, uid, direction):
    """valid frames of every message type of one direction"""
    frames = []
    for i in range(draw(st.integers(1, 3))):
        for _ in range(4):
            kind, f = draw(gens.message(direction, spec_mode=True))
            if framing == 'rtu' and kind.endswith(':8'):
                f = dict(f, data=(f['data'][:1] or [0]))
            pdu_ = specpdu.encode(kind, f)
            if len(pdu_) > 253:
                continue              # no valid frame carries a PDU of more than 253 bytes
            fr = refframe.build(framing, uid, pdu_, 0x1100 + i, 0)
            if not (framing == 'binary' and refframe.binary_fragile(fr)):
                frames.append(fr)
                break
    return frames or [refframe.build(framing, uid, bytes.fromhex('0600010002'), 0x1100, 0)]


@st.composite
def _case(draw):
    framing = draw(st.sampled_from(FRAMINGS))
    uid = draw(st.sampled_from([1, 1, 2, 17, 0x30, 247]))
    direction = draw(st.sampled_from(['req', 'req', 'any-req', 'any-rsp']))
    if direction == 'req':
        frames = draw(_stream(framing, uid))
    else:
        direction = direction[4:]
        frames = draw(_any_stream(framing, uid, direction))
    style = draw(st.sampled_from(['bits', 'bits', 'any', 'any', 'char', 'nested']))
    total = sum(len(f) for f in frames)
    if style == 'nested':
        # frame-in-frame: noise, then a start delimiter with filler, then valid frames (a receiver that slices
        # relative to a stale offset checks one region and delivers another)
        filler = draw(st.binary(min_size=0, max_size=12)).replace(b'}', b'c').replace(b'\r', b'd')
        if draw(st.booleans()):
            filler = bytes([uid]) + filler          # looks like a frame for the hosted unit
        if draw(st.booleans()):
            n = len(filler) + draw(st.sampled_from([0, 1, 1, 2]))     # noise as long as the bogus header: stale-offset receivers
            noise = draw(st.binary(min_size=n, max_size=n))
        else:
            noise = draw(st.binary(min_size=0, max_size=12))
        noise = noise.replace(b'{', b'a').replace(b':', b'b')
        start = {'binary': b'{', 'ascii': b':'}.get(framing, draw(st.binary(min_size=1, max_size=1)))
        pre = noise + start + filler
        return {'framing': framing, 'uid': uid, 'frames': [pre.hex()] + [f.hex() for f in frames], 'muts': [], 'cut': draw(gens.cuts()),
                'via_server': False, 'dir': direction}
    if style == 'bits':
        muts = [['flip', draw(st.integers(0, total - 1)), draw(st.integers(0, 7))] for _ in range(draw(st.integers(1, 3)))]
        if draw(st.integers(0, 3)) == 0:
            muts = [['burst', draw(st.integers(0, total - 1)), draw(st.integers(1, 0xFFFF))]]
    elif style == 'char':
        muts = [['sub', draw(st.integers(0, total - 1)), draw(st.one_of(st.sampled_from(gens.MUT_BYTES), st.integers(0, 255)))]]
    else:
        muts = draw(st.lists(gens.mutation(), min_size=1, max_size=4))
    case = {'framing': framing, 'uid': uid, 'frames': [f.hex() for f in frames], 'muts': muts, 'cut': draw(gens.cuts()), 'dir': direction,
            'via_server': draw(st.integers(0, 3)) == 0 and framing != 'tcp' and direction == 'req'}
    if not case['via_server'] and draw(st.integers(0, 3)) == 0:
        # the receiver's unit list also holds the broadcast address (what broadcast_enable does) or 255: then every unit id passes
        # the unit filter, and the frames of the stream are addressed to a unit that is NOT in the list
        case['units_extra'] = [draw(st.sampled_from([0, 0, 255]))]
        other = draw(st.sampled_from([9, 0x21, 100, 246]))
        case['frames'] = [refframe.build(framing, other, refframe.parse_one(framing, f)['pdu'], 0x1100 + i, 0).hex() for i, f in enumerate(frames)]
    return case


def strategy(tier):
    return _case()


def _refusal(m):
    """a stand-in the decoder hands out for a PDU it does NOT accept as a message of its function (executing it only builds an
    exception response): the malformed frame is refused, not delivered as that message"""
    from pymodbus.pdu import IllegalFunctionRequest, ExceptionResponse
    return isinstance(m, (IllegalFunctionRequest, ExceptionResponse))


# message kinds whose PDU size does not depend on their content
FIXED_PDU = {'req': {1: 5, 2: 5, 3: 5, 4: 5, 5: 5, 6: 5, 22: 7}, 'rsp': {5: 5, 6: 5, 15: 5, 16: 5, 22: 7}}


def sweeps(tier):
    out = []
    # TCP has no checksum: the only integrity information is the length field.  Every fixed-size message kind, in both
    # directions, with its length field raised or lowered and the bytes to fill it available (appended bytes / the next frame)
    cases = []
    samples = {'req': ['0100130013', '0200c40016', '03006b0003', '0400080001', '0500acff00', '0600010003', '160004 00f2 0025'.replace(' ', '')],
               'rsp': ['0500acff00', '0600010003', '0f0013000a', '1000010002', '16000400f20025']}
    nxt = {'req': '03006b0003', 'rsp': '0302002a'}
    for d in ('req', 'rsp'):
        for hx in samples[d]:
            pdu = bytes.fromhex(hx)
            good = refframe.build('tcp', 0x11, pdu, 7, 0)
            follow = refframe.build('tcp', 0x11, bytes.fromhex(nxt[d]), 8, 0)
            for delta in (1, 2, 3, 4, 9, -1, -2):
                ln = len(pdu) + 1 + delta
                if ln < 2:
                    continue
                bad = good[:4] + bytes([ln >> 8, ln & 0xFF]) + good[6:]
                for tail in (follow, b'\x00' * 12, follow + follow):
                    cases.append({'framing': 'tcp', 'dir': d, 'uid': 0x11, 'frames': [(bad + tail).hex()], 'muts': [], 'cut': ['whole'], 'via_server': False})
            for bit in range(16):
                cases.append({'framing': 'tcp', 'dir': d, 'uid': 0x11, 'frames': [good.hex(), follow.hex()], 'muts': [['flip', 4 + bit // 8, bit % 8]], 'cut': ['whole'], 'via_server': False})
    out.append(('tcp-length-field-corruptions-of-fixed-size-messages', cases, True))
    pdus = [specpdu.encode('req:6', {'address': 3, 'value': 0x1234}), specpdu.encode('req:5', {'address': 9, 'value': 0xFF00}),
            specpdu.encode('req:16', {'address': 2, 'registers': [1, 0x0B0B]}), specpdu.encode('req:15', {'address': 1, 'bits': [True, False, True]})]
    if tier == 'thorough':
        pdus += [specpdu.encode('req:6', {'address': 0, 'value': 0}), specpdu.encode('req:6', {'address': 0xFFFF, 'value': 0xFFFF}),
                 specpdu.encode('req:22', {'address': 4, 'and_mask': 0xF2, 'or_mask': 0x25}), specpdu.encode('req:16', {'address': 7, 'registers': [5, 6, 7]})]
    cases = []
    for framing in FRAMINGS:
        for pdu in pdus:
            fr = refframe.build(framing, 0x11, pdu, 7, 0)
            for bit in range(len(fr) * 8):
                cases.append({'framing': framing, 'uid': 0x11, 'frames': [fr.hex()], 'muts': [['flip', bit // 8, bit % 8]], 'cut': ['whole'], 'via_server': False})
    out.append(('all-single-bit-flips', cases, True))
    cases = []
    for framing in FRAMINGS:
        for pdu in pdus[:2]:
            fr = refframe.build(framing, 0x21, pdu, 7, 0)
            for bit in range(len(fr) * 8):
                cases.append({'framing': framing, 'uid': 0x11, 'units_extra': [0], 'frames': [fr.hex()], 'muts': [['flip', bit // 8, bit % 8]], 'cut': ['whole'], 'via_server': False})
    out.append(('single-bit-flips-of-frames-for-another-unit-with-broadcast-enabled', cases, True))
    if tier == 'thorough':
        cases = []
        for framing in FRAMINGS:
            for pdu in pdus[:3]:
                fr = refframe.build(framing, 0x11, pdu, 7, 0)
                nb = len(fr) * 8
                for b1 in range(nb):
                    for b2 in range(b1 + 1, nb):
                        cases.append({'framing': framing, 'uid': 0x11, 'frames': [fr.hex()],
                                      'muts': [['flip', b1 // 8, b1 % 8], ['flip', b2 // 8, b2 % 8]], 'cut': ['whole'], 'via_server': False})
        out.append(('all-double-bit-flips', cases, True))
    cases = []
    # frames whose LRC has a leading '0' (a blank or sign there would satisfy a lenient number parser) and LRC 00
    lowlrc = []
    for want in (0x0B, 0x00):
        for v in range(0x10000):
            p = specpdu.encode('req:6', {'address': 3, 'value': v})
            if refframe.lrc(bytes([0x11]) + p) == want:
                lowlrc.append(p)
                break
    for pdu in lowlrc + pdus[:1 if tier == 'quick' else 4]:
        fr = refframe.build('ascii', 0x11, pdu)
        for pos in range(len(fr)):
            for v in range(256):
                if v != fr[pos]:
                    cases.append({'framing': 'ascii', 'uid': 0x11, 'frames': [fr.hex()], 'muts': [['sub', pos, v]], 'cut': ['whole'], 'via_server': False})
    out.append(('ascii-every-single-character-substitution', cases, True))
    # every single-byte insertion (quick: whitespace / sign / delimiter / hex / extreme bytes; thorough: all 256) and deletion
    cases = []
    vals = range(256) if tier == 'thorough' else sorted(set(gens.MUT_BYTES + [0x09, 0x0B, 0x0C, 0x0D, 0x0A, 0x20, 0x7F, 0x80]))
    for framing in FRAMINGS:
        for pdu in (lowlrc[:1] + pdus[:2]) if framing == 'ascii' else pdus[:2]:
            fr = refframe.build(framing, 0x11, pdu, 7, 0)
            for pos in range(len(fr) + 1):
                for v in (vals if framing == 'ascii' or tier == 'thorough' else (0x00, 0x7B, 0x7D, 0xFF)):
                    cases.append({'framing': framing, 'uid': 0x11, 'frames': [(fr[:pos] + bytes([v]) + fr[pos:]).hex()], 'muts': [], 'cut': ['whole'], 'via_server': False})
            for pos in range(len(fr)):
                cases.append({'framing': framing, 'uid': 0x11, 'frames': [(fr[:pos] + fr[pos + 1:]).hex()], 'muts': [], 'cut': ['whole'], 'via_server': False})
    out.append(('every-single-byte-insertion-and-deletion', cases, tier == 'thorough'))
    return out


def run_case(case):
    framing, uid = case['framing'], case['uid']
    frames = [bytes.fromhex(f) for f in case['frames']]
    original = b''.join(frames)
    stream = gens.apply_mutations(original, case['muts'])
    labels = ['framing:' + framing] + ['mut:' + m[0] for m in case['muts']] + (['unit-list-with-broadcast-address'] if case.get('units_extra') else [])
    chunks = [c for c in gens.apply_cuts(stream, case['cut'])]
    found = refframe.find_frames(framing, stream)
    nt = stream != original or not case['muts']
    discs = []
    if not found:
        labels.append('no-valid-frame-in-stream')
    # ---- (A)/(B) at framer level
    direction = case.get('dir', 'req')
    labels.append('dir:' + direction)
    proxy = pm.RecordingDecoder(pm.decoder(direction))
    fr = pm.framer_class(framing)(proxy)
    fed = b''
    delivered = []
    for c in chunks:
        fed += c
        got = []
        try:
            fr.processIncomingPacket(c, got.append, [uid] + list(case.get('units_extra') or []), single=False)
        except Exception:
            fr.resetFrame()          # what the serial handler does
        new = proxy.seen[len(delivered):]
        for j, pdu in enumerate(new):
            m = got[j] if j < len(got) else None
            duid = m.unit_id if m is not None else uid
            tid = m.transaction_id if (m is not None and framing == 'tcp') else None
            pid = m.protocol_id if (m is not None and framing == 'tcp') else None
            fixed = FIXED_PDU[direction].get(pdu[0]) if pdu else None
            if framing == 'tcp' and m is not None and fixed is not None and len(pdu) != fixed and not _refusal(m):
                # "an MBAP length consistent with the PDU": a message of a fixed-size kind was delivered from a frame whose
                # length field covers more (or fewer) bytes than that message has
                discs.append(Disc('unjustified-delivery', 'tcp %s: a %d-byte PDU %s was delivered as function %d, whose PDU has %d bytes (MBAP length not consistent with the message); fed %s' % (
                    direction, len(pdu), pdu.hex()[:40], pdu[0], fixed, fed.hex()[:120])))
                break
            if m is None:
                # handed to the decoder but not delivered as a message (the decoder refused it): the unit is not known from a
                # message object; a checksum-valid / length-consistent frame for ANY unit justifies the hand-over
                ok_ = any(refframe.justified(framing, fed, u_, pdu, tid, pid) for u_ in ([uid] + [x for x in range(256) if x != uid]))
            else:
                ok_ = refframe.justified(framing, fed, duid, pdu, tid, pid)
            if not ok_:
                discs.append(Disc('unjustified-delivery', '%s: PDU %s (unit %r) handed to the decoder but no valid frame for it in the bytes fed so far (%s); original %s, mutations %r' % (
                    framing, pdu.hex()[:60], duid, fed.hex()[:120], original.hex()[:120], case['muts'])))
                break
            delivered.append(pdu)
        if discs:
            break
    if not discs and not found and proxy.seen:
        discs.append(Disc('delivered-without-any-valid-frame', '%s: %d deliveries although the stream %s holds no valid frame' % (framing, len(proxy.seen), stream.hex()[:120])))
    # ---- (C) through the serial server handler
    if case.get('via_server') and not discs:
        pm.reset_globals()
        labels.append('via-serial-server')
        ctx = c09.make_context(False, [uid], c09.SMALL_LAYOUT)
        before = model.norm_dump(model.dump_slave(ctx[uid]))
        frontends.run('sync_serial', framing, ctx, [(0, c) for c in chunks])
        allowed, _ = c12.allowed_values(framing, stream, chunks)
        now = model.norm_dump(model.dump_slave(ctx[uid]))
        for t in 'cdhi':
            for a, v in now[t].items():
                if v != before[t][a]:
                    al = allowed.get(t, {}).get(a)
                    if not (al == 'any' or (al is not None and v in al)):
                        discs.append(Disc('unjustified-write', '%s via serial server: %s[%d] became %r; stream %s' % (framing, t, a, v, stream.hex()[:120])))
                        break
            if discs:
                break
        pm.reset_globals()
    return Outcome(discs, labels, nt)


def extra_stages(tier, seed):
    from vlib import engine
    seeds = []
    for i, framing in enumerate(['rtu', 'ascii', 'binary', 'tcp']):
        for pdu in (specpdu.encode('req:6', {'address': 3, 'value': 0x1234}), specpdu.encode('req:16', {'address': 2, 'registers': [1, 2]})):
            for uidsel, uid in ((0, 1), (1, 0x11)):
                seeds.append(bytes([i, 0, uidsel]) + refframe.build(framing, uid, pdu, 7, 0))
                seeds.append(bytes([i, 1, uidsel]) + b'\x00{:' + refframe.build(framing, uid, pdu, 7, 0) * 2)
    return engine.atheris_stage(PID, tier, seed, 10000 if tier == 'quick' else 600000, seeds, max_len=200)
