"""C12 No received byte sequence can crash a server or corrupt its data."""
from hypothesis import strategies as st

from vlib import frontends, gens, kinds, model, pm, refframe, specpdu
from vlib.engine import Disc, Outcome
from checks import c04, c09

PID = 'C12'   # noqa
RULE = ('Hypothesis: byte streams built three ways - pure random bytes; 1..4 valid write frames then 1..4 mutations (bit flip, '
        'byte substitution biased to delimiters/hex/sign characters, deletion, insertion, truncation, extension, 16-bit burst); '
        'structured hostile frames = valid framing and checksum around a PDU that is truncated, over-long, with byte count vs '
        'data mismatch, unknown function or sub-function, zero data, or (tcp) MBAP length 0/1/2/65535 - cut into arbitrary '
        'chunks (whole, every k bytes, explicit cut sets incl. empty reads), on every front-end (7) x framing (tcp, rtu, ascii, '
        'binary, tls). Oracle: (1) no exception leaves the serving code (Twisted: the reactor handles it by closing that '
        'connection, which is allowed); (2) every datastore cell holds its initial value or a value that a well-formed write '
        'request inside a checksum-valid frame found ANYWHERE in the stream (independent finder) could have put there; (3) a '
        'probe write + read on a fresh connection to the same server object is answered exactly as the model predicts; (4) the '
        'handler terminates. Non-trivial: stream holds a validly framed PDU that is not well-formed, or >=16 random bytes; '
        'distinct by SHA-1. Streams also contain valid requests of every kind (Force Listen Only Mode included), writes to existing cells with a short or over-long data field, kilobytes of noise; sweep of undefined diagnostic sub-functions that share a byte with a defined one, each followed by the probe.')
ASSUMPTIONS = ['the frame finder over-approximates what a receiver may accept (any offset), so (2) never blames a justified write',
               'Twisted: exceptions from dataReceived/datagramReceived are caught by the reactor (connection closed / datagram dropped)',
               'streams that contain a checksum-valid Force Listen Only Mode request are not probed on Twisted front-ends (spec-mandated silence)']
BUDGET = {'quick': 8000, 'thorough': 12000}

LAY = c09.SMALL_LAYOUT
FRAMINGS = ['tcp', 'rtu', 'ascii', 'binary', 'tls']


@st.composite
def _valid_write(draw, i):
    fc = draw(st.sampled_from([5, 6, 15, 16, 6, 16]))
    a = 2 + 6 * i
    if fc == 5:
        return specpdu.encode('req:5', {'address': a, 'value': 0xFF00})
    if fc == 6:
        return specpdu.encode('req:6', {'address': a, 'value': draw(st.integers(1, 0xFFFF))})
    if fc == 15:
        return specpdu.encode('req:15', {'address': a, 'bits': draw(st.lists(st.booleans(), min_size=1, max_size=5))})
    return specpdu.encode('req:16', {'address': a, 'registers': draw(st.lists(st.integers(1, 0xFFFF), min_size=1, max_size=3))})


@st.composite
def _hostile_pdu(draw):
    which = draw(st.sampled_from(['trunc', 'extend', 'bytecount', 'unknown-fc', 'unknown-sub', 'empty', 'raw', 'valid-any', 'listen-only', 'short-write', 'long-write']))
    if which in ('short-write', 'long-write'):
        # a write to cells that exist whose header fields are consistent with each other, but whose data field is cut short /
        # carries surplus bytes: not a well-formed request, so nothing may be written
        pdu = draw(_valid_write(draw(st.integers(0, 5))))
        if which == 'long-write':
            return pdu + draw(st.binary(min_size=1, max_size=4))
        fixed = {5: 1, 6: 1, 15: 6, 16: 6}[pdu[0]]
        return pdu[:draw(st.integers(fixed, len(pdu) - 1))]
    if which == 'listen-only':
        # a perfectly valid request whose purpose is to silence the device: afterwards a fresh connection must still be served
        # (Twisted front-ends implement the spec's listen-only mode and are not probed, see ASSUMPTIONS)
        return specpdu.encode('req:8', {'sub': 4, 'data': [0]})
    if which == 'valid-any':
        kind = draw(st.sampled_from([k for k in kinds.ALL_KINDS if k.startswith('req')]))
        return specpdu.encode(kind, draw(gens.fields(kind, spec_mode=True)))
    if which == 'raw':
        return draw(st.binary(min_size=1, max_size=12))
    if which == 'unknown-fc':
        return bytes([draw(st.sampled_from([0, 9, 10, 13, 14, 25, 42, 44, 90, 127, 128, 129, 255]))]) + draw(st.binary(max_size=6))
    if which == 'unknown-sub':
        if draw(st.booleans()):
            # undefined 16-bit sub-function whose LOW byte is a defined one (0x0804 is not Force Listen Only Mode)
            return bytes([8, draw(st.integers(1, 255)), draw(st.sampled_from([0, 1, 2, 3, 4, 10, 11, 12, 13, 14, 15, 16, 17, 18, 20, 21]))]) + bytes([0, 0])
        return bytes([8]) + bytes([draw(st.integers(0, 255)), draw(st.sampled_from([5, 6, 7, 8, 9, 22, 99, 255]))]) + draw(st.binary(max_size=4))
    if which == 'empty':
        return bytes([draw(st.sampled_from([1, 2, 3, 4, 5, 6, 8, 15, 16, 20, 21, 22, 23, 24, 43]))])
    kind = draw(st.sampled_from([k for k in kinds.ALL_KINDS if k.startswith('req')]))
    f = draw(gens.fields(kind, spec_mode=True))
    pdu = specpdu.encode(kind, f)
    if which == 'trunc':
        return pdu[:max(1, len(pdu) - draw(st.integers(1, 6)))]
    if which == 'extend':
        return pdu + draw(st.binary(min_size=1, max_size=5))
    # byte count mismatch on the multiple-write functions / file records
    fc = draw(st.sampled_from([15, 16, 23, 20, 21]))
    if fc == 15:
        return specpdu.encode('req:15', {'address': 1, 'bits': [], '_quantity': draw(st.integers(0, 70)), '_byte_count': draw(st.integers(0, 255)),
                                         '_data': draw(st.binary(max_size=8)).hex()})
    if fc == 16:
        return specpdu.encode('req:16', {'address': 1, 'registers': [], '_quantity': draw(st.integers(0, 70)), '_byte_count': draw(st.integers(0, 255)),
                                         '_data': draw(st.binary(max_size=8)).hex()})
    if fc == 23:
        return specpdu.encode('req:23', {'read_address': 0, 'read_quantity': draw(st.integers(0, 200)), 'write_address': 1, 'registers': [],
                                         '_quantity': draw(st.integers(0, 70)), '_byte_count': draw(st.integers(0, 255)),
                                         '_data': draw(st.binary(max_size=8)).hex()})
    return bytes([fc, draw(st.integers(0, 255))]) + draw(st.binary(max_size=16))


@st.composite
def _case(draw):
    fe = draw(st.sampled_from(frontends.ALL))
    framing = draw(st.sampled_from(FRAMINGS if fe in frontends.STREAM else FRAMINGS[:4]))
    uid = draw(st.sampled_from([0, 1, 1, 17, 255]))
    style = draw(st.sampled_from(['random', 'mutated', 'mutated', 'hostile', 'hostile', 'mixed']))
    parts = []
    if style == 'random':
        if draw(st.integers(0, 5)) == 0:
            # kilobytes of noise (longer than any frame, longer than a receive buffer)
            blob = draw(st.binary(min_size=8, max_size=64))
            parts.append((blob * (draw(st.integers(300, 4000)) // len(blob) + 1)))
        else:
            parts.append(draw(st.binary(min_size=1, max_size=80)))
    if style in ('mutated', 'mixed'):
        n = draw(st.integers(1, 4))
        stream = b''.join(refframe.build(framing, uid, draw(_valid_write(i)), i + 1, 0) for i in range(n))
        parts.append(gens.apply_mutations(stream, draw(st.lists(gens.mutation(), min_size=1, max_size=4))))
    if style in ('hostile', 'mixed'):
        for i in range(draw(st.integers(1, 3))):
            pdu = draw(_hostile_pdu())
            fr = refframe.build(framing, uid, pdu, 100 + i, 0)
            if framing == 'tcp' and draw(st.integers(0, 4)) == 0:
                ln = draw(st.sampled_from([0, 1, 2, 3, 0xFFFF, len(pdu), len(pdu) + 2]))
                fr = fr[:4] + bytes([ln >> 8, ln & 0xFF]) + fr[6:]
            parts.append(fr)
        if draw(st.booleans()):
            parts.append(refframe.build(framing, uid, draw(_valid_write(5)), 200, 0))
    stream = b''.join(parts)
    single = True if framing == 'tls' else draw(st.booleans())     # the TLS framing carries no unit id
    cuts = draw(gens.cuts())
    if fe in frontends.DATAGRAM and draw(st.integers(0, 3)) == 0:
        cuts = ['at', [0, 0, draw(st.integers(0, 400))]]       # leading zero-length datagram(s)
    if len(stream) > 600 and cuts[0] != 'whole':
        # kilobytes arrive in reads of a realistic size (thousands of one-byte reads only make the case slow)
        cuts = ['every', 97 + len(stream) % 400]
    return {'frontend': fe, 'framing': framing, 'uid': uid, 'single': single, 'stream': stream.hex(), 'cuts': cuts}


def strategy(tier):
    return _case().filter(lambda c: len(c['stream']) > 0)


def sweeps(tier):
    """Diagnostic requests whose 16-bit sub-function is undefined but shares its low (or high) byte with a defined one: none of
    them may be taken for the defined function (Force Listen Only Mode silences a Twisted server for good)."""
    defined = [0, 1, 2, 3, 4, 10, 11, 12, 13, 14, 15, 16, 17, 18, 20, 21]
    his = range(1, 256) if tier == 'thorough' else [1, 2, 3, 4, 8, 0x10, 0x20, 0x40, 0x80, 0xFF]
    cases = []
    for fe in ('tw_tcp', 'sync_tcp', 'aio_udp'):
        for hi in his:
            for lo in defined:
                for sub in ((hi << 8) | lo, (lo << 8) | hi if lo else None):
                    if sub is None or sub in defined:
                        continue
                    pdu = bytes([8, sub >> 8, sub & 0xFF, 0, 0])
                    cases.append({'frontend': fe, 'framing': 'tcp', 'uid': 1, 'single': True, 'cuts': ['whole'],
                                  'stream': refframe.build('tcp', 1, pdu, 7, 0).hex()})
    return [('undefined-diagnostic-sub-functions-near-defined-ones', cases, tier == 'thorough')]


def allowed_values(framing, stream, chunks=None):
    """cell -> set of values (or 'any') that justified, well-formed write requests in `stream` may store.
    On TLS the record (= one read) is the frame, so every prefix-accumulated chunk is a candidate PDU."""
    allowed = {'c': {}, 'h': {}}
    listen_only = False
    if framing == 'tls':
        cands = []
        for i in range(len(chunks or [])):
            for j in range(i, len(chunks)):
                cands.append({'pdu': b''.join(chunks[i:j + 1])})
    else:
        cands = refframe.find_frames(framing, stream)
    for fr in cands:
        pdu = fr['pdu']
        if len(pdu) < 1:
            continue
        if pdu[:3] == b'\x08\x00\x04':
            listen_only = True
        if pdu[0] not in (5, 6, 15, 16, 22, 23):
            continue
        a = model.abstract_request(pdu)
        if a is None:
            continue
        # well-formed enough to prescribe a write: fixed-size requests exactly, multiple writes with a byte count that
        # agrees with the quantity and a data field that really holds that many values (trailing extra bytes tolerated)
        if pdu[0] in (5, 6, 22) and not a['wellformed']:
            continue
        if pdu[0] == 15 and not (a['byte_count'] == (a['quantity'] + 7) // 8 and a['data_len'] >= a['byte_count']):
            continue
        if pdu[0] in (16, 23) and not (a['byte_count'] == 2 * a['quantity'] and a['data_len'] >= a['byte_count']):
            continue
        t = 'c' if pdu[0] in (5, 15) else 'h'
        if pdu[0] == 5:
            allowed[t].setdefault(a['address'], set()).update([0, 1])
        elif pdu[0] == 6:
            cur = allowed[t].setdefault(a['address'], set())
            if cur != 'any':
                cur.add(a['value'])
        elif pdu[0] == 22:
            allowed[t][a['address']] = 'any'
        elif pdu[0] == 15:
            for i in range(min(a['quantity'], len(a['bits']), 2000)):
                allowed[t].setdefault(a['address'] + i, set()).update([0, 1])
        else:
            vals = a['registers']
            for i in range(min(a['quantity'], len(vals))):
                cur = allowed[t].setdefault(a['address'] + i, set())
                if cur != 'any':
                    cur.add(vals[i])
    return allowed, listen_only


def run_case(case):
    pm.reset_globals()
    fe, framing, uid = case['frontend'], case['framing'], case['uid']
    stream = bytes.fromhex(case['stream'])
    labels = ['frontend:' + fe, 'framing:' + framing]
    chunks = gens.apply_cuts(stream, case['cuts'])
    if fe in frontends.DATAGRAM and not case.get('empty_datagrams', True):
        chunks = [c for c in chunks if c]
    hosted = [uid] if not case['single'] else [0]
    ctx = c09.make_context(case['single'], hosted, LAY)
    before = dict((u, model.norm_dump(model.dump_slave(s))) for u, s in ctx)
    discs = []
    puid = hosted[0]
    val = 0xBEEF
    if framing == 'binary':
        # recorded finding KF-BINARY-FRAMER-DELIMITER-BYTES: keep the probe free of delimiter bytes
        for val in range(0xBEEF, 0xBEEF + 200):
            fw = refframe.build(framing, puid, specpdu.encode('req:6', {'address': 39, 'value': val}))
            fr_ = refframe.build(framing, puid, specpdu.encode('req:3', {'address': 39, 'quantity': 1}))
            fp = refframe.build(framing, puid, specpdu.encode('rsp:3', {'registers': [val]}))
            if not (refframe.binary_fragile(fw) or refframe.binary_fragile(fr_) or refframe.binary_fragile(fp)):
                break
    w = specpdu.encode('req:6', {'address': 39, 'value': val})
    if framing == 'binary':
        r = specpdu.encode('req:3', {'address': 39, 'quantity': 1})
    else:
        r = specpdu.encode('req:3', {'address': 30, 'quantity': 10})
    script = [(1, refframe.build(framing, puid, w, 0x7001, 0)), (1, refframe.build(framing, puid, r, 0x7002, 0))]
    res = frontends.run(fe, framing, ctx, [(0, c) for c in chunks] + script)
    for c, e in res.escaped:
        if e.startswith('reactor-handled'):
            labels.append('twisted-reactor-closed')
        else:
            discs.append(Disc('escaped', '%s/%s stream %s cuts %r: %s' % (fe, framing, case['stream'][:80], case['cuts'], e)))
    if res.hung:
        discs.append(Disc('hung', '%s/%s: handler did not return after the stream ended' % (fe, framing)))
    if res.closed.get(0):
        labels.append('connection-closed')
    # (2) datastore
    allowed, listen_only = allowed_values(framing, stream, chunks)
    if allowed['h'].get(39) != 'any':
        allowed['h'].setdefault(39, set()).add(val)      # the probe's own write
    frames = refframe.find_frames(framing, stream)
    nt = len(stream) >= 16 or any(True for f in frames)
    if any(_malformed(f['pdu']) for f in frames):
        labels.append('validly-framed-malformed-pdu')
    for u, slave in ctx:
        now = model.norm_dump(model.dump_slave(slave))
        for t in 'cdhi':
            for a, v in now[t].items():
                if v == before[u][t][a]:
                    continue
                ok = False
                if t in allowed:
                    al = allowed[t].get(a)
                    ok = al == 'any' or (al is not None and v in al)
                if not ok:
                    discs.append(Disc('unjustified-write', '%s/%s: cell %s[%d] changed from %r to %r but no checksum-valid well-formed write in the stream prescribes that (stream %s)' % (
                        fe, framing, t, a, before[u][t][a], v, case['stream'][:100])))
                    break
            if discs:
                break
    # (3) probe on a fresh connection
    if not discs and not (listen_only and frontends.FAMILY[fe] == 'tw'):
        from pymodbus.device import ModbusControlBlock
        if ModbusControlBlock().ListenOnly and frontends.FAMILY[fe] == 'tw':
            labels.append('listen-only-set-without-justified-request')
        slave = ctx[puid]
        cur = model.norm_dump(model.dump_slave(slave))
        probe = res
        want_regs = [val] if framing == 'binary' else [cur['h'][a] for a in range(30, 40)]
        sent = probe.sent.get(1, [])
        detail = 'responses: %r' % [s.hex() for s in sent]
        try:
            ps = [p_ for s_ in sent for p_ in refframe.parse_many(framing, s_)]
            ok = len(ps) == 2 and ps[0]['pdu'] == w and ps[1]['pdu'] == specpdu.encode('rsp:3', {'registers': want_regs})
        except refframe.FrameError as e:
            ok = False
            detail = str(e)
        if not ok:
            discs.append(Disc('probe', '%s/%s: after stream %s (cuts %r) a fresh connection is not served correctly: %s; escaped %r' % (
                fe, framing, case['stream'][:80], case['cuts'], detail, probe.escaped)))
    elif listen_only:
        labels.append('listen-only-in-stream')
    pm.reset_globals()
    return Outcome(discs, labels, nt)


def _malformed(pdu):
    try:
        specpdu.decode('req', pdu)
        return False
    except specpdu.SpecError:
        return True


def extra_stages(tier, seed):
    from vlib import engine
    seeds = []
    for x in range(len(frontends.ALL)):
        for i, framing in enumerate(FRAMINGS[:4]):
            pdu = specpdu.encode('req:16', {'address': 2, 'registers': [7, 8]})
            fr = refframe.build(framing, 1, pdu, 5, 0)
            seeds.append(bytes([i, 0, x | 16]) + fr)
            seeds.append(bytes([i, 1, x | 16]) + fr[:-2] + fr)
    return engine.atheris_stage(PID, tier, seed, 400 if tier == 'quick' else 60000, seeds, max_len=300)
