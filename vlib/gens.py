"""Shared Hypothesis strategies: neutral message fields per kind (see specpdu/kinds)."""
from hypothesis import strategies as st

from vlib import kinds

U16_EDGES = [0, 1, 2, 0x7B, 0x7D, 0x79, 0x7D0, 0x7B0, 0x7D1, 0x7B1, 0xFF, 0x100, 0xFF00, 0xFFFE, 0xFFFF,
             0x0D0A, 0x3A3A, 0x7B7D, 0x7D7B, 0x7D7D, 0x7B7B]


def u16():
    return st.one_of(st.integers(0, 0xFFFF), st.sampled_from(U16_EDGES))


def u8():
    return st.one_of(st.integers(0, 255), st.sampled_from([0, 1, 0x7B, 0x7D, 0x0D, 0x0A, 0x3A, 0xFF]))


def quantity(maxq, spec_mode):
    edges = [1, 2, 7, 8, 9, maxq - 1, maxq]
    if spec_mode:
        edges += [0, maxq + 1, 0xFFFF]
        return st.one_of(st.sampled_from(edges), st.integers(0, 0xFFFF), st.integers(0, maxq))
    return st.one_of(st.sampled_from(edges), st.integers(1, maxq))


def sized_list(elem, lo, hi, small=12):
    """Mostly short lists (fast, shrink well), sometimes anywhere up to hi."""
    return st.one_of(st.lists(elem, min_size=lo, max_size=min(hi, small)),
                     st.lists(elem, min_size=lo, max_size=min(hi, small)),
                     st.lists(elem, min_size=lo, max_size=min(hi, small)),
                     st.lists(elem, min_size=lo, max_size=hi),
                     st.lists(elem, min_size=max(lo, hi - 1), max_size=hi),      # the largest legal sizes
                     st.lists(elem, min_size=hi, max_size=hi))


def hexbytes(lo, hi, even=False, small=10):
    s = st.one_of(st.binary(min_size=lo, max_size=min(hi, small)), st.binary(min_size=lo, max_size=hi))
    if even:
        s = s.map(lambda b: b[:len(b) - (len(b) % 2)])
    return s.map(lambda b: b.hex())


def _records_wfile():
    rec = st.fixed_dictionaries({'file': u16(), 'record': u16(), 'data': hexbytes(0, 40, even=True)})

    def fit(recs):
        out, total = [], 0
        for r in recs:
            n = 7 + len(r['data']) // 2
            if total + n > 245:
                break
            out.append(r)
            total += n
        return out
    return st.lists(rec, min_size=0, max_size=8).map(fit)


def _records_rfile_rsp():
    rec = st.fixed_dictionaries({'data': hexbytes(0, 40, even=True)})

    def fit(recs):
        out, total = [], 0
        for r in recs:
            n = 2 + len(r['data']) // 2
            if total + n > 245:
                break
            out.append(r)
            total += n
        return out
    return st.lists(rec, min_size=0, max_size=8).map(fit)


def _mei_objects():
    obj = st.tuples(st.one_of(st.integers(0, 6), st.integers(0x80, 0xFF)), st.one_of(hexbytes(0, 60, small=8), hexbytes(0, 60, small=8), hexbytes(100, 240, small=240)))

    def fit(objs):
        out, total, seen = [], 0, set()
        for oid, v in objs:
            n = 2 + len(v) // 2
            if oid in seen or total + n > 240:
                continue
            seen.add(oid)
            out.append([oid, v])
            total += n
        return out
    return st.lists(obj, min_size=0, max_size=10).map(fit)


DIAG_SIMPLE = [2, 3, 4, 10, 11, 12, 13, 14, 15, 16, 17, 18, 19, 20]


def diag_fields(direction, spec_mode):
    alts = [
        st.fixed_dictionaries({'sub': st.just(0), 'data': sized_list(u16(), 1, 100, small=3)}),
        st.fixed_dictionaries({'sub': st.just(0), 'data': st.lists(u16(), min_size=1, max_size=1)}),
        st.fixed_dictionaries({'sub': st.just(1), 'data': st.sampled_from([[0xFF00], [0]])}),
    ]
    simple = [s for s in DIAG_SIMPLE if not (direction == 'rsp' and s == 4)]
    alts.append(st.fixed_dictionaries({'sub': st.sampled_from(simple), 'data': st.lists(u16(), min_size=1, max_size=1)}))
    if direction == 'req':
        alts.append(st.fixed_dictionaries({'sub': st.just(21), 'data': st.sampled_from([[3], [4]])}))
    else:
        alts.append(st.fixed_dictionaries({'sub': st.just(21), 'data': st.just([4])}))
        alts.append(st.fixed_dictionaries({'sub': st.just(21),
                                           'data': st.lists(u16(), min_size=54, max_size=54).map(lambda w: [3] + w)}))
        if not spec_mode:
            alts.append(st.fixed_dictionaries({'sub': st.just(4), 'data': st.just([])}))
    return st.one_of(alts)


def fields(kind, spec_mode=True):
    if kind == 'exc':
        return st.fixed_dictionaries({'fc': st.integers(1, 127), 'code': st.one_of(st.integers(0, 255), st.integers(1, 11))})
    d, fc = kind.split(':')
    fc = int(fc)
    fd = st.fixed_dictionaries
    if d == 'req' and fc in (1, 2):
        return fd({'address': u16(), 'quantity': quantity(2000, spec_mode)})
    if d == 'req' and fc in (3, 4):
        return fd({'address': u16(), 'quantity': quantity(125, spec_mode)})
    if d == 'rsp' and fc in (1, 2):
        return fd({'bits': sized_list(st.booleans(), 0 if spec_mode else 1, 2040 if spec_mode else 2000, small=20)})
    if d == 'rsp' and fc in (3, 4, 23):
        return fd({'registers': sized_list(u16(), 0 if spec_mode else 1, 127 if spec_mode else 125, small=6)})
    if fc == 5:
        return fd({'address': u16(), 'value': st.sampled_from([0xFF00, 0])})
    if fc == 6:
        return fd({'address': u16(), 'value': u16()})
    if d == 'req' and fc in (7, 11, 12, 17):
        return st.just({})
    if d == 'rsp' and fc == 7:
        return fd({'status': u8()})
    if d == 'rsp' and fc == 11:
        return fd({'status_word': st.sampled_from([0, 0xFFFF]), 'event_count': u16()})
    if d == 'rsp' and fc == 12:
        return fd({'status_word': st.sampled_from([0, 0xFFFF]), 'event_count': u16(), 'message_count': u16(),
                   'events': sized_list(u8(), 0, 64, small=6)})
    if d == 'rsp' and fc == 17:
        return fd({'identifier': hexbytes(0 if spec_mode else 1, 200), 'run': st.booleans()})
    if d == 'req' and fc == 15:
        return fd({'address': u16(), 'bits': sized_list(st.booleans(), 0 if spec_mode else 1, 2040 if spec_mode else 1968, small=20)})
    if d == 'req' and fc == 16:
        return fd({'address': u16(), 'registers': sized_list(u16(), 0 if spec_mode else 1, 127 if spec_mode else 123, small=6)})
    if d == 'rsp' and fc == 15:
        return fd({'address': u16(), 'quantity': quantity(1968, spec_mode)})
    if d == 'rsp' and fc == 16:
        return fd({'address': u16(), 'quantity': quantity(123, spec_mode)})
    if d == 'req' and fc == 20:
        return fd({'records': st.lists(fd({'file': u16(), 'record': u16(), 'length': u16()}), min_size=0, max_size=35)})
    if d == 'rsp' and fc == 20:
        return fd({'records': _records_rfile_rsp()})
    if fc == 21:
        return fd({'records': _records_wfile()})
    if fc == 22:
        return fd({'address': u16(), 'and_mask': u16(), 'or_mask': u16()})
    if d == 'req' and fc == 23:
        return fd({'read_address': u16(), 'read_quantity': quantity(125, spec_mode), 'write_address': u16(),
                   'registers': sized_list(u16(), 0 if spec_mode else 1, 123 if spec_mode else 121, small=6)})
    if d == 'req' and fc == 24:
        return fd({'address': u16()})
    if d == 'rsp' and fc == 24:
        return fd({'values': sized_list(u16(), 0, 40 if spec_mode else 31, small=5)})
    if d == 'req' and fc == 43:
        return fd({'read_code': st.integers(1, 4), 'object_id': u8()})
    if d == 'rsp' and fc == 43:
        return fd({'read_code': st.integers(1, 4), 'conformity': st.sampled_from([1, 2, 3, 0x81, 0x82, 0x83]),
                   'more': st.sampled_from([0, 0xFF]), 'next_id': u8(), 'objects': _mei_objects()})
    if fc == 8:
        return diag_fields(d, spec_mode)
    raise ValueError(kind)


def message(direction=None, spec_mode=True, only=None):
    """-> strategy of [kind, fields]."""
    ks = only or [k for k in kinds.ALL_KINDS if direction is None or k.startswith(direction) or (k == 'exc' and direction == 'rsp')]
    return st.sampled_from(ks).flatmap(lambda k: fields(k, spec_mode).map(lambda f: [k, f]))


# ----------------------------------------------------------------------------- datastore layouts
@st.composite
def block(draw, bits, max_size=60):
    val = st.booleans() if bits else u16()
    shape = draw(st.sampled_from(['seq', 'seq', 'seq', 'sparse']))
    if shape == 'seq':
        n = draw(st.one_of(st.integers(1, 12), st.integers(1, max_size), st.integers(1, max_size)))
        start = draw(st.one_of(st.integers(0, 12), st.integers(0, 12), st.integers(0, 65535), st.just(65536 - n), st.just(65537 - n)))
        start = max(0, min(start, 65537 - n))
        vals = draw(st.one_of(st.lists(val, min_size=n, max_size=n), st.just([False if bits else 0] * n)))
        return {'shape': 'seq', 'start': start, 'values': vals}
    base = draw(st.one_of(st.integers(0, 10), st.integers(0, 65400)))
    if draw(st.integers(0, 5)) == 0:
        # a sparse block with long runs of consecutive cells (requests of more than 125 cells need them), a hole in between
        n1 = draw(st.sampled_from([126, 127, 130, 200, 300, 2000] if bits else [124, 125, 126, 130]))
        n2 = draw(st.sampled_from([0, 1, 130]))
        base = min(base, 65535 - n1 - n2 - 2)
        keys = list(range(base, base + n1)) + list(range(base + n1 + 1, base + n1 + 1 + n2))
        seed_ = draw(st.integers(1, 0xFFFF))
        vals = [bool((i * seed_ >> 3) & 1) if bits else (i * seed_) & 0xFFFF for i in range(len(keys))]
        return {'shape': 'sparse', 'keys': keys, 'values': vals}
    offs = draw(st.lists(st.integers(0, 50), min_size=1, max_size=30, unique=True))
    keys = sorted(base + o for o in offs)
    return {'shape': 'sparse', 'keys': keys, 'values': draw(st.lists(val, min_size=len(keys), max_size=len(keys)))}


@st.composite
def layout(draw, max_size=60, allow_default=False):
    share = draw(st.sampled_from([None, None, None, 'bits', 'regs', 'both']))
    tables = {'c': draw(block(True, max_size)), 'd': draw(block(True, max_size)),
              'h': draw(block(False, max_size)), 'i': draw(block(False, max_size))}
    if allow_default and draw(st.integers(0, 5)) == 0:
        # some (or all) tables left to the library default: ModbusSlaveContext() builds them itself
        for k in draw(st.lists(st.sampled_from('cdhi'), min_size=2, max_size=4, unique=True)):
            tables[k] = {'shape': 'default'}
        share = None
    out = {'zero_mode': draw(st.booleans()), 'share': share, 'tables': tables}
    same = draw(st.sampled_from([None, None, None, None, 'bits', 'regs', 'both']))
    if same and share is None and all(tables[k]['shape'] != 'default' for k in 'cdhi'):
        # two separate tables initialised from one and the same list object of the application
        if same in ('bits', 'both') and tables['c']['shape'] == 'seq':
            tables['d'] = dict(tables['c'])
        if same in ('regs', 'both') and tables['h']['shape'] == 'seq':
            tables['i'] = dict(tables['h'])
        out['same_initial'] = same
    return out


def runs(cells):
    """maximal runs of consecutive addresses in a dict/iterable of addresses -> [(first, length)]"""
    out = []
    for a in sorted(cells):
        if out and out[-1][0] + out[-1][1] == a:
            out[-1][1] += 1
        else:
            out.append([a, 1])
    return [(a, n) for a, n in out]


# ----------------------------------------------------------------------------- byte-stream mutation / chunking
MUT_BYTES = [0x00, 0xFF, 0x7B, 0x7D, 0x0D, 0x0A, 0x3A, 0x30, 0x41, 0x46, 0x61, 0x66, 0x47, 0x20, 0x2B, 0x2D, 0x5F, 0x78, 0x58]


def mutation():
    """one mutation op as JSON: ['flip', pos%, bit] | ['sub', pos%, byte] | ['del', pos%, n] | ['ins', pos%, hex] | ['trunc', pos%] | ['ext', hex]
    positions are given as integers reduced modulo the current length when applied."""
    pos = st.integers(0, 4000)
    byte = st.one_of(st.sampled_from(MUT_BYTES), st.integers(0, 255))
    return st.one_of(
        st.tuples(st.just('flip'), pos, st.integers(0, 7)),
        st.tuples(st.just('sub'), pos, byte),
        st.tuples(st.just('del'), pos, st.integers(1, 3)),
        st.tuples(st.just('ins'), pos, st.binary(min_size=1, max_size=4).map(lambda b: b.hex())),
        st.tuples(st.just('ins'), pos, st.lists(st.sampled_from(MUT_BYTES + [0x09, 0x0B, 0x0C]), min_size=1, max_size=2).map(lambda l: bytes(l).hex())),
        st.tuples(st.just('trunc'), pos),
        st.tuples(st.just('ext'), st.binary(min_size=1, max_size=6).map(lambda b: b.hex())),
        st.tuples(st.just('burst'), pos, st.integers(1, 0xFFFF)),
    ).map(list)


def apply_mutations(data, muts):
    b = bytearray(data)
    for m in muts:
        if m[0] == 'ext':
            b.extend(bytes.fromhex(m[1]))
            continue
        if not b:
            continue
        p = m[1] % len(b)
        if m[0] == 'flip':
            b[p] ^= 1 << m[2]
        elif m[0] == 'sub':
            b[p] = m[2]
        elif m[0] == 'del':
            del b[p:p + m[2]]
        elif m[0] == 'ins':
            b[p:p] = bytes.fromhex(m[2])
        elif m[0] == 'trunc':
            del b[p:]
        elif m[0] == 'burst':
            # XOR a 16-bit error pattern starting at bit 0 of byte p (burst of <= 16 bits)
            b[p] ^= (m[2] >> 8) & 0xFF
            if p + 1 < len(b):
                b[p + 1] ^= m[2] & 0xFF
    return bytes(b)


def cuts():
    """chunking description: ['whole'] | ['every', k] | ['at', [offsets...]] (offsets reduced modulo length+1)"""
    return st.one_of(st.just(['whole']), st.tuples(st.just('every'), st.integers(1, 9)).map(list),
                     st.tuples(st.just('at'), st.lists(st.integers(0, 4000), min_size=1, max_size=8)).map(list),
                     st.tuples(st.just('at'), st.lists(st.integers(0, 12), min_size=1, max_size=4)).map(list))


def apply_cuts(data, cut):
    if cut[0] == 'whole' or not data:
        return [data] if data else []
    if cut[0] == 'every':
        k = cut[1]
        return [data[i:i + k] for i in range(0, len(data), k)]
    offs = sorted(set(o % (len(data) + 1) for o in cut[1]))
    out, prev = [], 0
    for o in offs:
        out.append(data[prev:o])     # may be empty: an empty read
        prev = o
    out.append(data[prev:])
    return out
