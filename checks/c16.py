"""C16 Asynchronous client matches pipelined replies by transaction id."""
from hypothesis import strategies as st

from vlib import pm, refframe, specpdu
from vlib.engine import Disc, Outcome

PID = 'C16'
RULE = ('Hypothesis: a Twisted ModbusClientProtocol on a StringTransport, TCP variant (socket framer, dictionary manager), '
        'serial RTU variant (FIFO manager) - built from a framer instance, a framer class or the ready-made subclasses - or the '
        'datagram variant ModbusUdpClientProtocol (whole replies per datagram, no connection), driven by a history of 1..25 operations: issue a request (unit 1..247), deliver '
        'the reply of pending request k (any order on TCP, oldest first on serial), deliver several replies coalesced into one '
        'read, deliver one reply split over two reads, inject an unsolicited reply (unused transaction id), inject a duplicate '
        'of an already delivered reply, an unsolicited reply split over two reads (idle, with a request issued in between, or behind a '
        'genuine reply), a request that cannot be encoded (execute raises, nothing is sent), lose the connection, issue after the loss; the transaction-id counter starts at 0 or '
        'just below 0xFFFF. Oracle: model tid -> deferred: each deferred fires exactly once with the reply that carries its '
        'tid and the values scripted for it; transaction ids on the wire are pairwise distinct among outstanding requests; '
        'unsolicited / duplicate replies fire nothing and leave pending requests intact (TCP only: a serial line has no id); '
        'after connection loss every pending deferred has failed with ConnectionException and later requests fail at once; '
        'no exception escapes dataReceived. Sweep: 70000-request history (thorough: 140000) with one long-outstanding request '
        '(id-space wrap). Non-trivial: >=2 outstanding requests answered out of order, a coalesced read, or a loss with >=1 '
        'pending; distinct by SHA-1. Further operations: a request object executed again, reconnect with a new protocol object after a loss (also in the middle of a reply), protocols built without a framer / by ModbusClientFactory; sweep with 40..300 (thorough 1200) requests outstanding at once.')
ASSUMPTIONS = ['StringTransport stands for the reactor transport; an exception out of dataReceived would make the reactor drop the connection']
BUDGET = {'quick': 4000, 'thorough': 12000}


@st.composite
def _case(draw):
    variant = draw(st.sampled_from(['tcp', 'tcp', 'rtu', 'udp']))
    ops = []
    for _ in range(draw(st.integers(1, 25))):
        o = draw(st.sampled_from(['req', 'req', 'req', 'reply', 'reply', 'coalesce', 'split', 'unsolicited', 'dup', 'lose', 'stray+reply', 'req-retry',
                                  'bad-req', 'stray-split', 'req-again']))
        if o == 'req':
            ops.append(['req', draw(st.integers(1, 247)), draw(st.integers(1, 6))])
        elif o == 'req-retry':
            # a request whose failure handler immediately issues a new request (retry-on-failure application code)
            ops.append(['req', draw(st.integers(1, 247)), draw(st.integers(1, 6)), 'reissue-on-failure'])
        elif o == 'stray+reply':
            # an unsolicited / duplicate reply in the same read as (in front of) a genuine reply, whole or partial
            ops.append(['stray+reply', draw(st.integers(0, 9)), draw(st.sampled_from(['whole', 'partial'])), draw(st.integers(1, 12))])
        elif o == 'req-again':
            # the application re-uses a request OBJECT it has already executed (still outstanding or long answered)
            ops.append(['req-again', draw(st.integers(0, 9))])
        elif o == 'bad-req':
            # a request the caller filled in wrongly: it cannot be encoded, execute() raises and nothing is sent
            ops.append(['bad-req', draw(st.integers(1, 247)), draw(st.sampled_from(['value-too-large', 'negative-address', 'too-many-registers']))])
        elif o == 'stray-split':
            # an unsolicited reply that arrives in two reads; in between a request is issued ('req') or nothing happens ('none');
            # 'behind-reply': its head arrives in the same read as (behind) a genuine reply
            ops.append(['stray-split', draw(st.integers(0, 9)), draw(st.integers(1, 10)), draw(st.sampled_from(['req', 'none', 'behind-reply'])),
                        draw(st.integers(1, 247)), draw(st.integers(1, 6))])
        elif o == 'reply':
            ops.append(['reply', draw(st.integers(0, 9))])
        elif o == 'coalesce':
            ops.append(['coalesce', draw(st.lists(st.integers(0, 9), min_size=2, max_size=4))])
        elif o == 'split':
            ops.append(['split', draw(st.integers(0, 9)), draw(st.integers(1, 14))])
        elif o == 'lose':
            if draw(st.integers(0, 2)) == 0:
                # the connection may be lost in the middle of a reply; afterwards the application may reconnect (a NEW protocol object)
                # ... or the application calls close() itself first, and the transport then reports the loss
                ops.append(['lose', draw(st.sampled_from([None, None, 'mid-reply', 'app-close', 'twice'])), draw(st.integers(0, 9)), draw(st.integers(1, 12))])
                if draw(st.booleans()):
                    ops.append(['reconnect'])
        else:
            ops.append([o, draw(st.integers(0, 9))])
    return {'variant': variant, 'tid_start': draw(st.sampled_from([0, 0, 0xFFF0, 0xFFFD, 0xFFFE])), 'ops': ops,
            # the protocol accepts a framer instance or a framer class
            'framer_as_class': draw(st.booleans()),
            # ModbusClientProtocol itself or the ready-made subclass (ModbusTcpClientProtocol / ModbusSerClientProtocol with their default framer)
            'ctor': draw(st.sampled_from(['base', 'base', 'subclass', 'default', 'factory']))}


def strategy(tier):
    return _case()


def sweeps(tier):
    cases = [{'variant': 'tcp', 'tid_start': 0xFFFA, 'ops': [['req', 1, 1]] * 12 + [['reply', 11]] + [['reply', 0]] * 11},
             {'variant': 'tcp', 'tid_start': 0, 'wrap': 70000, 'ops': []}]
    if tier == 'thorough':
        cases += [{'variant': 'tcp', 'tid_start': s, 'wrap': 140000, 'ops': []} for s in (0, 0xFFFE, 12345)]
    out = [('id-space-wrap-with-one-long-outstanding-request', cases, False)]
    # many requests outstanding at once, answered newest first / in a scrambled order
    many = []
    for nreq in ((40, 300, 1200) if tier == 'thorough' else (40, 300)):
        for variant in ('tcp', 'udp', 'rtu'):
            ops = [['req', 1 + i % 247, 1 + i % 6] for i in range(nreq)]
            ops += [['reply', (nreq - 1 - i) if variant != 'rtu' else 0] for i in range(nreq)] if nreq <= 300 else [['reply', (i * 7919) % 9973] for i in range(nreq)]
            many.append({'variant': variant, 'tid_start': 65000, 'ops': ops, 'ctor': 'base', 'framer_as_class': False})
    for nreq in (36, 37, 60, 150):
        many.append({'variant': 'rtu', 'tid_start': 0, 'ctor': 'base', 'framer_as_class': False,
                     'ops': [['req', 1 + i % 247, 1 + i % 3] for i in range(nreq)] + [['coalesce', [0] * nreq]]})
        many.append({'variant': 'tcp', 'tid_start': 0, 'ctor': 'base', 'framer_as_class': False,
                     'ops': [['req', 1 + i % 247, 1 + i % 3] for i in range(nreq)] + [['coalesce', list(range(nreq - 1, -1, -1))]]})
    out.append(('many-outstanding-requests', many, False))
    return out


def run_case(case):
    from twisted.internet.testing import StringTransport
    from pymodbus.client.asynchronous.twisted import ModbusClientProtocol
    from pymodbus.factory import ClientDecoder
    from pymodbus.transaction import ModbusSocketFramer, ModbusRtuFramer
    from pymodbus.exceptions import ConnectionException
    from pymodbus.register_read_message import ReadHoldingRegistersRequest
    pm.reset_globals()
    variant = case['variant']
    labels = ['variant:' + variant]
    discs = []
    framing = 'rtu' if variant == 'rtu' else 'tcp'
    fcls = ModbusSocketFramer if framing == 'tcp' else ModbusRtuFramer
    class DatagramTransport(object):
        def __init__(self):
            self.buf = b''

        def write(self, packet, addr=None):
            self.buf += bytes(packet)

        def value(self):
            return self.buf

    def connect():
        """a protocol object + transport, built the way the case says (called again for every reconnect)"""
        if variant == 'udp':
            from pymodbus.client.asynchronous.twisted import ModbusUdpClientProtocol
            return ModbusUdpClientProtocol(host='peer', port=502), DatagramTransport()
        if case.get('ctor') == 'subclass':
            from pymodbus.client.asynchronous.twisted import ModbusTcpClientProtocol, ModbusSerClientProtocol
            return (ModbusTcpClientProtocol if variant == 'tcp' else ModbusSerClientProtocol)(), StringTransport()
        if case.get('ctor') in ('default', 'factory') and variant == 'tcp':
            from pymodbus.client.asynchronous.twisted import ModbusClientFactory
            return (ModbusClientProtocol() if case['ctor'] == 'default' else ModbusClientFactory().buildProtocol(None)), StringTransport()
        return ModbusClientProtocol(framer=fcls if case.get('framer_as_class') else fcls(ClientDecoder())), StringTransport()
    proto, tr = connect()
    if variant != 'udp':
        labels.append('ctor:%s' % (case.get('ctor') or 'base'))
        if case.get('framer_as_class') and (case.get('ctor') or 'base') == 'base':
            labels.append('framer-given-as-class')
    proto.makeConnection(tr)
    proto.transaction.tid = case['tid_start']
    reqs = []          # dict(idx, tid, unit, count, fired=[...], failed=[...], answered, frame)
    lost = False
    lost_flag = [False]
    nt = False
    sent_len = [0]

    def issue(unit, count, reissue=False, obj=None):
        idx = len(reqs)
        r = {'idx': idx, 'unit': unit, 'count': count, 'fired': [], 'failed': [], 'delivered': 0, 'after_loss': lost_flag[0]}
        r['obj'] = obj if obj is not None else ReadHoldingRegistersRequest(idx & 0xFFFF, count, unit=unit)
        d = proto.execute(r['obj'])

        data = tr.value()[sent_len[0]:]
        sent_len[0] = len(tr.value())
        try:
            p = refframe.parse_one(framing, data)
            r['tid'] = p['tid']
        except refframe.FrameError as e:
            r['tid'] = None
            if not (lost_flag[0] and not data):       # after the connection is lost a client need not write anything
                discs.append(Disc('request-frame', 'request %d: written bytes %s are not one frame: %s' % (idx, data.hex()[:60], e)))
        def on_fail(f, r=r):
            r['failed'].append(f)
            if reissue and not r.get('reissued'):
                r['reissued'] = True
                child = issue(unit, count)          # application code retrying from inside the errback
                child['lost'] = False
                child['after_loss'] = True            # the connection is already lost when this runs
                r['child'] = child
        r['regs'] = [(idx * 11 + i + 1) & 0xFFFF for i in range(count)]
        r['frame'] = refframe.build(framing, unit, specpdu.encode('rsp:3', {'registers': r['regs']}), r['tid'] or 0, 0)
        reqs.append(r)
        d.addCallbacks(lambda rsp, r=r: r['fired'].append(rsp), on_fail)      # may run on_fail at once (and recurse) when already lost
        return r

    def pending():
        return [r for r in reqs if not r['after_loss'] and not r['delivered'] and not r['lost']]

    def feed(data, what):
        try:
            if variant == 'udp':
                proto.datagramReceived(data, ('peer', 502))
            else:
                proto.dataReceived(data)
        except Exception as e:
            discs.append(Disc('dataReceived-raises', '%s: %s: %s (ops so far %r)' % (what, type(e).__name__, e, done_ops[-6:])))

    done_ops = []
    try:
        if case.get('wrap'):
            # a few requests with adjacent ids stay outstanding while the 16-bit id space wraps
            olds = []
            for _ in range(case.get('outstanding', 3)):
                o = issue(1, 1)
                o['lost'] = False
                olds.append(o)
            n = case['wrap']
            for i in range(n):
                r = issue(1 + i % 200, 1)
                r['lost'] = False
                clash = [o for o in olds if o['tid'] == r['tid']]
                if clash:
                    discs.append(Disc('tid-reused-while-outstanding', 'request %d reuses transaction id %d of request %d which is still outstanding' % (r['idx'], r['tid'], clash[0]['idx'])))
                    break
                feed(r['frame'], 'reply')
                r['delivered'] = 1
                if len(r['fired']) != 1:
                    discs.append(Disc('not-fired', 'request %d (tid %r) did not fire on its reply' % (r['idx'], r['tid'])))
                    break
            if not discs:
                for o in olds:
                    feed(o['frame'], 'late reply of a long-outstanding request')
                    if len(o['fired']) != 1 or list(getattr(o['fired'][0], 'registers', [])) != o['regs']:
                        discs.append(Disc('reply-not-matched', 'long-outstanding request %d (tid %r) fired %d times with %r after the wrap' % (
                            o['idx'], o['tid'], len(o['fired']), [getattr(f, 'registers', f) for f in o['fired']])))
                        break
            labels.append('wrap-history')
            return Outcome(discs, labels, True)
        for op in case['ops']:
            if variant == 'udp':
                # datagrams: no connection to lose, a reply is one whole datagram
                if op[0] in ('lose', 'stray+reply', 'stray-split'):
                    continue
                if op[0] == 'split':
                    op = ['reply', op[1]]
                elif op[0] == 'coalesce':
                    op = ['reply', op[1][0]]
                elif op[0] == 'req':
                    op = op[:3]
            done_ops.append(op)
            if discs:
                break
            if op[0] == 'req-again' and not reqs:
                continue
            if op[0] == 'req-again':
                old_ = reqs[op[1] % len(reqs)]
                labels.append('request-object-reused')
                op = ['req', old_['unit'], old_['count']]
                r = issue(old_['unit'], old_['count'], obj=old_['obj'])
            elif op[0] == 'req':
                r = issue(op[1], op[2], reissue=(len(op) > 3))
            if op[0] == 'req':
                r['lost'] = False
                if lost:
                    labels.append('issue-after-loss')
                    if not (len(r['failed']) == 1 and r['failed'][0].check(ConnectionException) and not r['fired']):
                        discs.append(Disc('request-after-loss-did-not-fail', 'request issued after connection loss: fired %r failed %r' % (r['fired'], r['failed'])))
                else:
                    out = [x for x in pending() if x is not r]
                    if r['tid'] is not None and any(x['tid'] == r['tid'] for x in out) and framing == 'tcp':
                        discs.append(Disc('tid-reused-while-outstanding', 'transaction id %d issued twice among outstanding requests' % r['tid']))
                continue
            if op[0] == 'reconnect':
                if lost and variant != 'udp':
                    proto, tr = connect()
                    proto.makeConnection(tr)
                    sent_len[0] = 0
                    lost = False
                    lost_flag[0] = False
                    labels.append('reconnected')
                continue
            if op[0] == 'bad-req':
                from pymodbus.register_write_message import WriteSingleRegisterRequest, WriteMultipleRegistersRequest
                bad = {'value-too-large': lambda: WriteSingleRegisterRequest(1, 0x10000, unit=op[1]),
                       'negative-address': lambda: WriteSingleRegisterRequest(-1, 1, unit=op[1]),
                       'too-many-registers': lambda: WriteMultipleRegistersRequest(1, [0] * 200, unit=op[1])}[op[2]]()
                labels.append('unencodable-request')
                try:
                    d_ = proto.execute(bad)
                    d_.addErrback(lambda f: None)      # whatever it is, it is not a request the history tracks
                except Exception:
                    pass
                if len(tr.value()) != sent_len[0]:
                    # something was written after all: then it is an ordinary outstanding request the peer never answers
                    sent_len[0] = len(tr.value())
                continue
            if lost:
                continue
            pend = pending()
            if op[0] == 'stray-split':
                if framing != 'tcp':
                    continue
                used = set(y['tid'] for y in pend)
                tid = (op[1] * 7919 + 501) & 0xFFFF
                while tid in used or tid in set((t_ + k_) & 0xFFFF for t_ in [proto.transaction.tid] for k_ in range(0, 4)):
                    tid = (tid + 1) & 0xFFFF
                stray = refframe.build('tcp', 1, specpdu.encode('rsp:3', {'registers': [0xDEAD]}), tid, 0)
                cut = max(1, min(len(stray) - 1, op[2]))
                before = [(len(x['fired']), len(x['failed'])) for x in reqs]
                labels.append('stray-split:' + op[3])
                nt = True
                if op[3] == 'behind-reply' and pend:
                    x = pend[op[1] % len(pend)]
                    feed(x['frame'] + stray[:cut], 'genuine reply followed by the head of an unsolicited reply')
                    x['delivered'] += 1
                    feed(stray[cut:], 'tail of the unsolicited reply')
                    before[x['idx']] = (before[x['idx']][0] + 1, before[x['idx']][1])
                    if not (len(x['fired']) == 1 and list(getattr(x['fired'][0], 'registers', [])) == x['regs']):
                        discs.append(Disc('reply-not-matched', 'tcp request %d (tid %r): its reply arrived in front of the head of an unsolicited reply and the deferred fired %d times' % (x['idx'], x['tid'], len(x['fired']))))
                else:
                    feed(stray[:cut], 'head of an unsolicited reply')
                    r = None
                    if op[3] == 'req':
                        r = issue(op[4], op[5])
                        r['lost'] = False
                        before.append((0, 0))
                    feed(stray[cut:], 'tail of the unsolicited reply')
                    if r is not None and not discs:
                        feed(r['frame'], 'reply')
                        r['delivered'] += 1
                        before[r['idx']] = (1, 0)
                        if not (len(r['fired']) == 1 and list(getattr(r['fired'][0], 'registers', [])) == r['regs']):
                            discs.append(Disc('reply-not-matched', 'tcp request %d (tid %r), issued between the two reads that brought an unsolicited reply: after its own reply the deferred fired %d times' % (
                                r['idx'], r['tid'], len(r['fired']))))
                after = [(len(x['fired']), len(x['failed'])) for x in reqs]
                if after != before and not discs:
                    discs.append(Disc('stray-reply-fired-something', 'tcp: deferreds changed state around an unsolicited reply split over two reads (%s)' % op[3]))
                continue
            if op[0] == 'lose':
                lost = True
                lost_flag[0] = True
                if pend:
                    nt = True
                    labels.append('loss-with-pending')
                    if len(op) > 1 and op[1] == 'mid-reply':
                        x = pend[0] if framing == 'rtu' else pend[op[2] % len(pend)]
                        feed(x['frame'][:max(1, min(len(x['frame']) - 1, op[3]))], 'first part of a reply, then the connection is lost')
                        labels.append('loss-mid-reply')
                if len(op) > 1 and op[1] == 'app-close' and variant != 'udp':
                    labels.append('closed-by-the-application-first')
                    proto.close()
                proto.connectionLost(None)
                if len(op) > 1 and op[1] == 'twice':
                    proto.connectionLost(None)           # a second notification changes nothing
                for x in pend:
                    x['lost'] = True
                    if not (len(x['failed']) == 1 and x['failed'][0].check(ConnectionException) and not x['fired']):
                        discs.append(Disc('pending-not-failed-on-loss', 'request %d pending at connection loss: fired %d times, failed %r' % (x['idx'], len(x['fired']), x['failed'])))
                        break
                    ch = x.get('child')
                    if ch is not None:
                        labels.append('reissue-inside-errback')
                        if not (len(ch['failed']) == 1 and ch['failed'][0].check(ConnectionException) and not ch['fired']):
                            discs.append(Disc('request-after-loss-did-not-fail', 'request %d, issued from the errback of request %d while the connection was being lost, did not fail: fired %r failed %r' % (
                                ch['idx'], x['idx'], ch['fired'], ch['failed'])))
                            break
                continue
            if op[0] in ('reply', 'split', 'coalesce'):
                if not pend:
                    continue
                if framing == 'rtu':
                    chosen = pend[:len(op[1]) if op[0] == 'coalesce' else 1]     # a serial line answers in order
                elif op[0] == 'coalesce':
                    chosen = []
                    for k in op[1]:
                        x = pend[k % len(pend)]
                        if x not in chosen:
                            chosen.append(x)
                else:
                    chosen = [pend[op[1] % len(pend)]]
                if framing == 'tcp' and chosen[0] is not pend[0]:
                    nt = True
                    labels.append('out-of-order')
                if op[0] == 'split':
                    fr = chosen[0]['frame']
                    cut = max(1, min(len(fr) - 1, op[2]))
                    feed(fr[:cut], 'split part 1')
                    if chosen[0]['fired']:
                        discs.append(Disc('fired-on-partial-reply', 'request %d fired after %d of %d reply bytes' % (chosen[0]['idx'], cut, len(fr))))
                    feed(fr[cut:], 'split part 2')
                    labels.append('split')
                elif op[0] == 'coalesce':
                    feed(b''.join(x['frame'] for x in chosen), 'coalesced replies')
                    if len(chosen) > 1:
                        nt = True
                        labels.append('coalesced')
                        if len(set(x['unit'] for x in chosen)) > 1:
                            labels.append('coalesced-different-units')
                else:
                    feed(chosen[0]['frame'], 'reply')
                for x in chosen:
                    x['delivered'] += 1
                    ok = len(x['fired']) == 1 and not x['failed'] and list(getattr(x['fired'][0], 'registers', [])) == x['regs'] and \
                        (framing != 'tcp' or x['fired'][0].transaction_id == x['tid'])
                    if not ok and not discs:
                        discs.append(Disc('reply-not-matched', '%s request %d (tid %r unit %d): after its reply was delivered (%s) the deferred fired %d times with %r, failed %r' % (
                            variant, x['idx'], x['tid'], x['unit'], op[0], len(x['fired']), [getattr(f, 'registers', f) for f in x['fired']], x['failed'])))
                continue
            if framing != 'tcp':
                continue
            if op[0] == 'stray+reply':
                if not pend:
                    continue
                x = pend[op[1] % len(pend)]
                used = set(y['tid'] for y in pend)
                tid = (op[1] * 7919 + 77) & 0xFFFF
                while tid in used:
                    tid = (tid + 1) & 0xFFFF
                stray = refframe.build('tcp', 1, specpdu.encode('rsp:3', {'registers': [0xDEAD]}), tid, 0)
                fr = x['frame']
                if op[2] == 'whole':
                    feed(stray + fr, 'stray reply followed by a genuine reply in one read')
                else:
                    cut = max(1, min(len(fr) - 1, op[3]))
                    feed(stray + fr[:cut], 'stray reply followed by the start of a genuine reply')
                    feed(fr[cut:], 'rest of the genuine reply')
                labels.append('stray-in-front-of-reply')
                nt = True
                x['delivered'] += 1
                ok = len(x['fired']) == 1 and not x['failed'] and list(getattr(x['fired'][0], 'registers', [])) == x['regs']
                if not ok and not discs:
                    discs.append(Disc('reply-not-matched', 'tcp request %d (tid %r): its reply arrived right behind an unsolicited reply (%s) and the deferred fired %d times' % (
                        x['idx'], x['tid'], op[2], len(x['fired']))))
                continue
            before = [(len(x['fired']), len(x['failed'])) for x in reqs]
            if op[0] == 'unsolicited':
                used = set(x['tid'] for x in pend)
                tid = (op[1] * 7919 + 13) & 0xFFFF
                while tid in used:
                    tid = (tid + 1) & 0xFFFF
                feed(refframe.build('tcp', 1, specpdu.encode('rsp:3', {'registers': [0xDEAD]}), tid, 0), 'unsolicited reply')
                labels.append('unsolicited')
            elif op[0] == 'dup':
                donee = [x for x in reqs if x['delivered'] and x['tid'] not in set(y['tid'] for y in pend)]
                if not donee:
                    continue
                feed(donee[op[1] % len(donee)]['frame'], 'duplicate reply')
                labels.append('duplicate')
            after = [(len(x['fired']), len(x['failed'])) for x in reqs]
            if after != before:
                discs.append(Disc('stray-reply-fired-something', '%s: a deferred changed state on an %s reply' % (variant, op[0])))
        # at the end: nothing fired twice, nothing pending fired
        if not discs:
            for x in reqs:
                if len(x['fired']) + len(x['failed']) > 1:
                    discs.append(Disc('fired-twice', 'request %d: fired %d, failed %d' % (x['idx'], len(x['fired']), len(x['failed']))))
                    break
                if not x['delivered'] and not x['after_loss'] and not x.get('lost') and (x['fired'] or x['failed']):
                    discs.append(Disc('fired-without-reply', 'request %d fired without its reply' % x['idx']))
                    break
    except Exception as e:
        discs.append(Disc('raises', '%s: %s (ops %r)' % (type(e).__name__, e, done_ops[-6:])))
    pm.reset_globals()
    return Outcome(discs, labels, nt)
