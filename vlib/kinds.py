"""Bridge between neutral (kind, fields) messages (see specpdu) and pymodbus objects.

build(kind, fields, **kw)  -> pymodbus message built through its public constructor
norm(obj)                  -> (kind, fields) normal form of a pymodbus message
expected_class(kind, fields) -> class object the decoders must produce
fields_equal(a, b)         -> equality up to zero padding of bit lists to a byte boundary
"""

DIAG_REQ = {0: 'ReturnQueryDataRequest', 1: 'RestartCommunicationsOptionRequest',
            2: 'ReturnDiagnosticRegisterRequest', 3: 'ChangeAsciiInputDelimiterRequest',
            4: 'ForceListenOnlyModeRequest', 10: 'ClearCountersRequest',
            11: 'ReturnBusMessageCountRequest', 12: 'ReturnBusCommunicationErrorCountRequest',
            13: 'ReturnBusExceptionErrorCountRequest', 14: 'ReturnSlaveMessageCountRequest',
            15: 'ReturnSlaveNoResponseCountRequest', 16: 'ReturnSlaveNAKCountRequest',
            17: 'ReturnSlaveBusyCountRequest', 18: 'ReturnSlaveBusCharacterOverrunCountRequest',
            19: 'ReturnIopOverrunCountRequest', 20: 'ClearOverrunCountRequest',
            21: 'GetClearModbusPlusRequest'}
DIAG_RSP = {0: 'ReturnQueryDataResponse', 1: 'RestartCommunicationsOptionResponse',
            2: 'ReturnDiagnosticRegisterResponse', 3: 'ChangeAsciiInputDelimiterResponse',
            4: 'ForceListenOnlyModeResponse', 10: 'ClearCountersResponse',
            11: 'ReturnBusMessageCountResponse', 12: 'ReturnBusCommunicationErrorCountResponse',
            13: 'ReturnBusExceptionErrorCountResponse', 14: 'ReturnSlaveMessageCountResponse',
            15: 'ReturnSlaveNoReponseCountResponse', 16: 'ReturnSlaveNAKCountResponse',
            17: 'ReturnSlaveBusyCountResponse', 18: 'ReturnSlaveBusCharacterOverrunCountResponse',
            19: 'ReturnIopOverrunCountResponse', 20: 'ClearOverrunCountResponse',
            21: 'GetClearModbusPlusResponse'}

CLASSES = {
    'req:1': ('bit_read_message', 'ReadCoilsRequest'), 'rsp:1': ('bit_read_message', 'ReadCoilsResponse'),
    'req:2': ('bit_read_message', 'ReadDiscreteInputsRequest'), 'rsp:2': ('bit_read_message', 'ReadDiscreteInputsResponse'),
    'req:3': ('register_read_message', 'ReadHoldingRegistersRequest'), 'rsp:3': ('register_read_message', 'ReadHoldingRegistersResponse'),
    'req:4': ('register_read_message', 'ReadInputRegistersRequest'), 'rsp:4': ('register_read_message', 'ReadInputRegistersResponse'),
    'req:5': ('bit_write_message', 'WriteSingleCoilRequest'), 'rsp:5': ('bit_write_message', 'WriteSingleCoilResponse'),
    'req:6': ('register_write_message', 'WriteSingleRegisterRequest'), 'rsp:6': ('register_write_message', 'WriteSingleRegisterResponse'),
    'req:7': ('other_message', 'ReadExceptionStatusRequest'), 'rsp:7': ('other_message', 'ReadExceptionStatusResponse'),
    'req:11': ('other_message', 'GetCommEventCounterRequest'), 'rsp:11': ('other_message', 'GetCommEventCounterResponse'),
    'req:12': ('other_message', 'GetCommEventLogRequest'), 'rsp:12': ('other_message', 'GetCommEventLogResponse'),
    'req:15': ('bit_write_message', 'WriteMultipleCoilsRequest'), 'rsp:15': ('bit_write_message', 'WriteMultipleCoilsResponse'),
    'req:16': ('register_write_message', 'WriteMultipleRegistersRequest'), 'rsp:16': ('register_write_message', 'WriteMultipleRegistersResponse'),
    'req:17': ('other_message', 'ReportSlaveIdRequest'), 'rsp:17': ('other_message', 'ReportSlaveIdResponse'),
    'req:20': ('file_message', 'ReadFileRecordRequest'), 'rsp:20': ('file_message', 'ReadFileRecordResponse'),
    'req:21': ('file_message', 'WriteFileRecordRequest'), 'rsp:21': ('file_message', 'WriteFileRecordResponse'),
    'req:22': ('register_write_message', 'MaskWriteRegisterRequest'), 'rsp:22': ('register_write_message', 'MaskWriteRegisterResponse'),
    'req:23': ('register_read_message', 'ReadWriteMultipleRegistersRequest'), 'rsp:23': ('register_read_message', 'ReadWriteMultipleRegistersResponse'),
    'req:24': ('file_message', 'ReadFifoQueueRequest'), 'rsp:24': ('file_message', 'ReadFifoQueueResponse'),
    'req:43': ('mei_message', 'ReadDeviceInformationRequest'), 'rsp:43': ('mei_message', 'ReadDeviceInformationResponse'),
}

ALL_KINDS = sorted(CLASSES) + ['req:8', 'rsp:8', 'exc']


def _cls(kind, f):
    import importlib
    if kind == 'exc':
        from pymodbus.pdu import ExceptionResponse
        return ExceptionResponse
    if kind in ('req:8', 'rsp:8'):
        import pymodbus.diag_message as dm
        table = DIAG_REQ if kind == 'req:8' else DIAG_RSP
        name = table.get(f['sub'])
        if name is None:
            return dm.DiagnosticStatusRequest if kind == 'req:8' else dm.DiagnosticStatusResponse
        return getattr(dm, name)
    modname, name = CLASSES[kind]
    return getattr(importlib.import_module('pymodbus.' + modname), name)


def expected_class(kind, f):
    return _cls(kind, f)


def build(kind, f, **kw):
    cls = _cls(kind, f)
    if kind == 'exc':
        return cls(f['fc'], f['code'], **kw)
    d, fc = kind.split(':')
    fc = int(fc)
    if d == 'req' and fc in (1, 2, 3, 4):
        return cls(f['address'], f['quantity'], **kw)
    if d == 'rsp' and fc in (1, 2):
        return cls(list(f['bits']), **kw)
    if d == 'rsp' and fc in (3, 4, 23):
        return cls(list(f['registers']), **kw)
    if fc == 5:
        return cls(f['address'], f['value'] == 0xFF00, **kw)
    if fc == 6:
        return cls(f['address'], f['value'], **kw)
    if d == 'req' and fc in (7, 11, 12, 17):
        return cls(**kw)
    if d == 'rsp' and fc == 7:
        return cls(f['status'], **kw)
    if d == 'rsp' and fc == 11:
        m = cls(f['event_count'], **kw)
        m.status = (f['status_word'] == 0x0000)
        return m
    if d == 'rsp' and fc == 12:
        return cls(status=(f['status_word'] == 0x0000), message_count=f['message_count'],
                   event_count=f['event_count'], events=list(f['events']), **kw)
    if d == 'rsp' and fc == 17:
        return cls(bytes.fromhex(f['identifier']), bool(f['run']), **kw)
    if d == 'req' and fc == 15:
        return cls(f['address'], list(f['bits']), **kw)
    if d == 'req' and fc == 16:
        return cls(f['address'], list(f['registers']), **kw)
    if d == 'rsp' and fc in (15, 16):
        return cls(f['address'], f['quantity'], **kw)
    if fc in (20, 21):
        from pymodbus.file_message import FileRecord
        recs = []
        for r in f['records']:
            if d == 'req' and fc == 20:
                recs.append(FileRecord(file_number=r['file'], record_number=r['record'], record_length=r['length']))
            elif d == 'rsp' and fc == 20:
                recs.append(FileRecord(record_data=bytes.fromhex(r['data'])))
            else:
                recs.append(FileRecord(file_number=r['file'], record_number=r['record'],
                                       record_data=bytes.fromhex(r['data'])))
        return cls(recs, **kw)
    if fc == 22:
        return cls(f['address'], f['and_mask'], f['or_mask'], **kw)
    if d == 'req' and fc == 23:
        return cls(read_address=f['read_address'], read_count=f['read_quantity'],
                   write_address=f['write_address'], write_registers=list(f['registers']), **kw)
    if d == 'req' and fc == 24:
        return cls(f['address'], **kw)
    if d == 'rsp' and fc == 24:
        return cls(list(f['values']), **kw)
    if d == 'req' and fc == 43:
        return cls(f['read_code'], f['object_id'], **kw)
    if d == 'rsp' and fc == 43:
        info = {}
        for oid, val in f['objects']:
            v = bytes.fromhex(val)
            if oid not in info:
                info[oid] = v
            elif isinstance(info[oid], list):
                info[oid].append(v)
            else:
                info[oid] = [info[oid], v]
        m = cls(f['read_code'], info, **kw)
        m.conformity = f['conformity']
        m.more_follows = f['more']
        m.next_object_id = f['next_id']
        return m
    if fc == 8:
        sub = f['sub']
        data = list(f['data'])
        if sub == 0:
            if f.get('_scalar') and len(data) == 1:
                return cls(data[0], **kw)
            return cls(data, **kw)
        if sub == 1:
            return cls(data == [0xFF00], **kw)
        if sub == 4 and d == 'rsp':
            return cls(**kw)
        if sub == 21 and d == 'req':
            return cls(data=data[0], **kw)
        if d == 'rsp' and len(data) != 1:
            return cls(data, **kw)
        return cls(data[0], **kw)
    raise ValueError(kind)


def _words(m):
    if m is None:
        return []
    if isinstance(m, bool):
        return [int(m)]
    if isinstance(m, int):
        return [m]
    if isinstance(m, (list, tuple)):
        return [int(x) for x in m]
    if isinstance(m, str):
        m = m.encode()
    if isinstance(m, (bytes, bytearray)):
        m = bytes(m) + (b'\x00' if len(m) % 2 else b'')
        return [int.from_bytes(m[i:i + 2], 'big') for i in range(0, len(m), 2)]
    return [repr(m)]


def _b(x):
    if isinstance(x, str):
        x = x.encode('latin-1')
    return bytes(x).hex()


def kind_of(obj):
    from pymodbus.pdu import ExceptionResponse, ModbusRequest
    if isinstance(obj, ExceptionResponse):
        return 'exc'
    d = 'req' if isinstance(obj, ModbusRequest) else 'rsp'
    return '%s:%d' % (d, obj.function_code)


def norm(obj):
    kind = kind_of(obj)
    if kind == 'exc':
        return kind, {'fc': obj.function_code & 0x7F, 'code': obj.exception_code}
    d, fc = kind.split(':')
    fc = int(fc)
    if d == 'req' and fc in (1, 2, 3, 4):
        return kind, {'address': obj.address, 'quantity': obj.count}
    if d == 'rsp' and fc in (1, 2):
        return kind, {'bits': [bool(x) for x in obj.bits]}
    if d == 'rsp' and fc in (3, 4, 23):
        return kind, {'registers': list(obj.registers)}
    if fc == 5:
        return kind, {'address': obj.address, 'value': 0xFF00 if obj.value else 0}
    if fc == 6:
        return kind, {'address': obj.address, 'value': obj.value}
    if d == 'req' and fc in (7, 11, 12, 17):
        return kind, {}
    if d == 'rsp' and fc == 7:
        return kind, {'status': obj.status}
    if d == 'rsp' and fc == 11:
        return kind, {'status_word': 0 if obj.status else 0xFFFF, 'event_count': obj.count}
    if d == 'rsp' and fc == 12:
        return kind, {'status_word': 0 if obj.status else 0xFFFF, 'event_count': obj.event_count,
                      'message_count': obj.message_count, 'events': [int(e) for e in obj.events]}
    if d == 'rsp' and fc == 17:
        return kind, {'identifier': _b(obj.identifier), 'run': bool(obj.status)}
    if d == 'req' and fc == 15:
        return kind, {'address': obj.address, 'bits': [bool(x) for x in obj.values]}
    if d == 'req' and fc == 16:
        return kind, {'address': obj.address, 'registers': list(obj.values)}
    if d == 'rsp' and fc in (15, 16):
        return kind, {'address': obj.address, 'quantity': obj.count}
    if d == 'req' and fc == 20:
        return kind, {'records': [{'file': r.file_number, 'record': r.record_number, 'length': r.record_length}
                                  for r in obj.records]}
    if d == 'rsp' and fc == 20:
        return kind, {'records': [{'data': _b(r.record_data)} for r in obj.records]}
    if fc == 21:
        return kind, {'records': [{'file': r.file_number, 'record': r.record_number, 'data': _b(r.record_data)}
                                  for r in obj.records]}
    if fc == 22:
        return kind, {'address': obj.address, 'and_mask': obj.and_mask, 'or_mask': obj.or_mask}
    if d == 'req' and fc == 23:
        return kind, {'read_address': obj.read_address, 'read_quantity': obj.read_count,
                      'write_address': obj.write_address, 'registers': list(obj.write_registers)}
    if d == 'req' and fc == 24:
        return kind, {'address': obj.address}
    if d == 'rsp' and fc == 24:
        return kind, {'values': list(obj.values)}
    if d == 'req' and fc == 43:
        return kind, {'read_code': obj.read_code, 'object_id': obj.object_id}
    if d == 'rsp' and fc == 43:
        objs = []
        for oid, val in obj.information.items():
            if isinstance(val, list):
                for v in val:
                    objs.append([oid, _b(v)])
            else:
                objs.append([oid, _b(val)])
        return kind, {'read_code': obj.read_code, 'conformity': obj.conformity, 'more': obj.more_follows,
                      'next_id': obj.next_object_id, 'objects': objs}
    if fc == 8:
        return kind, {'sub': obj.sub_function_code, 'data': _words(obj.message)}
    return kind, {'_unknown': repr(obj)}


def fields_equal(a, b):
    a = dict((k, v) for k, v in a.items() if not k.startswith('_'))
    b = dict((k, v) for k, v in b.items() if not k.startswith('_'))
    if set(a) != set(b):
        return False
    for k in a:
        if k == 'bits':
            x, y = list(a[k]), list(b[k])
            x += [False] * (-len(x) % 8)
            y += [False] * (-len(y) % 8)
            if x != y:
                return False
        elif k == 'objects':
            # the identification objects of a message are a mapping id -> value: their order on the wire is not a field
            if sorted(map(list, a[k])) != sorted(map(list, b[k])):
                return False
        elif a[k] != b[k]:
            return False
    return True
