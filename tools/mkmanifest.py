#!/usr/bin/env python3
"""Regenerates MANIFEST.json from the table below + the check modules present."""
import json
import os

HERE = os.path.dirname(os.path.dirname(os.path.abspath(__file__)))
PY = '/venv/bin/python'

# property id -> (technique, level text, level note, design ref)
CHECKS = {
    'C01': ('hypothesis generated messages; differential oracle = independent spec codec (vlib/specpdu), both directions',
            'Generated-input search over every registered message class, diagnostic sub-class and exception response with '
            'boundary-biased fields, compared byte-for-byte (encode) and field-for-field (decode) with a codec written '
            'independently from the specification tables and self-checked against the spec worked examples; exhaustive '
            'sweeps of bit-list lengths, register-list lengths, exception fc x code, diagnostic sub-functions.',
            'Trusts vlib/specpdu.py as the specification; two recorded known findings are matched on their exact defective bytes.',
            'DESIGN.md 4 C01'),
    'C02': ('hypothesis generated messages + operation histories on one object; round-trip / idempotence / no-accumulation oracle',
            'Generated messages of every class plus generated histories of encode/decode calls on one object, judged by '
            'pymodbus-against-itself relations: decode(encode(m)) == m with the same class, encode idempotent and pure, '
            'encode(decode(encode(m))) fixed point, and object state after each decode equal to the last decoded message.',
            'No external reference (deliberately independent of C01); equality is on public wire fields, bits up to byte padding.',
            'DESIGN.md 4 C02'),
    'C03': ('hypothesis generated (framing, message, unit, tid, pid); oracle = independent ADU builder + bitwise CRC/LRC + whole-frame receive through a recording decoder proxy',
            'Generated messages on all five framings, both decoder directions, all unit ids and transaction ids with '
            'delimiter-biased payloads: buildPacket compared byte-for-byte with an independent ADU builder, then the packet '
            'handed whole to a fresh framer whose decoder is a recording proxy (PDU bytes, unit/tid/pid, exactly one delivery, '
            'empty buffer); checksum functions compared with a bitwise reference incl. all 65536/256 candidate check values.',
            'Trusts vlib/refframe.py (self-checked on CRC/LRC/MBAP vectors); PDU bytes are pymodbus\' own (C01 owns them).',
            'DESIGN.md 4 C03'),
    'C04': ('hypothesis generated layouts + model-valid request histories through every framing; oracle = register-file reference model (responses + full table dumps after every step)',
            'Generated datastore layouts (sequential/sparse, any start, zero-mode, shared tables) and histories of up to 25 '
            'model-valid requests FC 1-6,15,16,22,23 sent as reference-built frames through the real server-side framer, '
            'decoded-request execute and buildPacket; each response is parsed by the independent frame parser + spec codec and '
            'compared with the reference model, and all four real tables are dumped and compared after every step.',
            'Trusts vlib/model.py, vlib/specpdu.py, vlib/refframe.py; only model-valid requests (C05 owns invalid ones).',
            'DESIGN.md 4 C04'),
    'C05': ('hypothesis boundary-directed raw request PDUs after valid histories + raising datastores behind all 7 front-ends; oracle = spec classification by the reference model + before/after table dumps; exhaustive 65536 coil values and quantity/byte-count grids',
            'Generated raw PDUs (spec codec in inconsistent mode) sweeping quantities across every limit, addresses across every '
            'run boundary, byte counts against quantities and data lengths, every coil value word and every unassigned function '
            'code, each after a generated valid history on a generated layout; the reference model yields the set of acceptable '
            'outcomes and the exact normal response; any exception answer must leave all four tables unchanged. Datastore '
            'failures (validate/get/set raising) are injected behind each of the seven front-ends and must yield exception 04.',
            'Trusts vlib/model.py classification (spec state diagrams); two simultaneous faults accept either code.',
            'DESIGN.md 4 C05'),
    'C06': ('hypothesis frame streams x chunkings; metamorphic oracle (one-frame-per-read delivery vs chunked delivery through a recording decoder proxy); exhaustive cut-set enumeration for short streams',
            'Generated streams of 1..5 valid frames on four framings and both decoder directions are delivered to a fresh '
            'framer under generated chunkings (every-k, explicit cut sets near headers and frame boundaries, bit masks over all '
            'cut positions, empty reads) and the list of (PDU bytes, unit, tid, pid) handed to the decoder must equal the '
            'one-frame-per-read baseline with no exception; ALL 2^(n-1) cut sets are enumerated for short one- and two-frame streams.',
            'Streams whose baseline is not clean (recorded findings) are excluded and counted.',
            'DESIGN.md 4 C06'),
    'C07': ('hypothesis mutation fuzzing of valid frame streams; justification oracle (independent frame reference over the bytes fed so far) through a recording decoder proxy; exhaustive bit-flip and ASCII-character sweeps',
            'Generated valid write-frame streams are corrupted by generated mutation lists and chunkings; every (unit, PDU) the '
            'framer hands to its decoder must be backed by a checksum-valid frame found by the independent reference in the '
            'bytes fed so far, nothing may be delivered when the independent finder sees no valid frame, and the same stream '
            'through the serial server handler may only change cells that a justified write prescribes. Exhaustive single-bit '
            '(thorough: double-bit) flips of frames on every framing and every single-character substitution of ASCII frames.',
            'One-directional by design (C11 owns lost neighbours); reference CRC/LRC/hex/MBAP rules in vlib/refframe.py.',
            'DESIGN.md 4 C07'),
    'C08': ('hypothesis transaction histories against scripted peers in virtual time (conformant / stale / foreign frames); oracle = returned object must match a frame that entered the receive path during the call and carry the request ids',
            'Generated histories of 1..6 transactions on one real client (TCP, serial rtu/ascii/binary, RTU-over-TCP) whose '
            'scripted peer places the conformant reply and/or frames of other transaction ids, units, function codes or a '
            'duplicate of the previous reply in the receive path; the returned value must be an error object or a response with '
            'the request\'s tid/unit/function whose fields equal the independent decode of a frame received during that call, '
            'and a lone conformant reply must be returned with exactly the scripted values; tid counter started near the wrap.',
            'Virtual-time fake sockets / serial ports (vlib/transports.py); serial units 1..247.',
            'DESIGN.md 4 C08'),
    'C09': ('hypothesis request histories x 7 in-process front-ends x framings x contexts x flags x delivery groupings; oracle = independent frame parser + expected response sequence',
            'Generated histories of well-formed requests of every kind (valid, invalid, unassigned functions, hosted/absent/'
            'broadcast units, listen-only last) delivered one or several per read to each of the seven server front-ends driven '
            'in-process; every write to the transport must parse as exactly one frame and the sequence of frames must be the '
            'expected one-response-per-accepted-request sequence with the request ids.',
            'Fake transports (one entry per send call); Twisted reactor behaviour modelled; binary histories containing delimiter bytes excluded.',
            'DESIGN.md 4 C09'),
    'C10': ('hypothesis unit-routing histories over 7 front-ends with setValues-counting slave contexts; oracle = one reference model per hosted unit + response check; exhaustive unit-id sweep',
            'Generated hosted sets, addressed units, broadcast/ignore flags, front-ends, framings and short write/read histories; '
            'after the history every hosted unit\'s four tables must equal its own reference model (so a write reached exactly '
            'the addressed unit, or every unit exactly once for a broadcast, or nothing for an absent unit), setValues call counts '
            'must match, and responses must be the model\'s (or silence / gateway exception for absent units). Thorough sweeps all '
            '256 unit ids x hosted-set shapes x flags x front-ends.',
            'Harness subclass of ModbusSlaveContext counts setValues; filter-dropped frames count as unanswered.',
            'DESIGN.md 4 C10'),
    'C11': ('hypothesis garbage prefixes + long runs of valid frames on serial framings; bounded-recovery oracle (every frame beyond e+2 max frames delivered exactly once in order; backlog bound) at framer level and through the serial / stream server handlers',
            'Generated garbage (random bytes, corrupted / truncated / foreign-unit frames, delimiter characters, headers announcing '
            'a body that never comes) in arbitrary chunks, followed by 70-170 distinct valid frames k per read, fed to the '
            'framer driven like the serial handler and to the real sync serial, asyncio and Twisted handlers with a serial '
            'framer; every valid frame that starts two maximum-size frames after the end of the garbage must be delivered '
            '(answered) exactly once, in order, and the receive buffer must stay bounded.',
            'Bounded form of "eventually" as the property states; valid frames arrive whole within a read.',
            'DESIGN.md 4 C11'),
    'C12': ('hypothesis hostile byte streams (random / mutated valid traffic / validly framed malformed PDUs) x chunkings x 7 front-ends x 5 framings; oracle = no escaping exception + justified-write finder + probe on a fresh connection',
            'Generated byte streams of three kinds, arbitrarily chunked, fed to every server front-end driven in-process; the '
            'check requires that no exception leaves the serving code, that every changed datastore cell is explained by a '
            'well-formed write request inside a checksum-valid frame found anywhere in the stream by an independent frame finder, '
            'that the handler terminates, and that a probe write+read on another connection of the same server object is answered '
            'exactly as the model predicts afterwards.',
            'Frame finder over-approximates acceptable frames (sound); Twisted reactor behaviour modelled; fake transports.',
            'DESIGN.md 4 C12'),
    'C13': ('hypothesis fault scripts per transmission x retry settings x client kinds in virtual time + exhaustive enumeration of short scripts; oracle = termination, no raise, transmission count, retry semantics, healthy follow-up',
            'Generated fault scripts (full/exception reply, silence, partial, garbage, wrong unit, stale, late, OSError on '
            'send/receive, peer close) for up to five transmissions under all retry settings on TCP, serial rtu/ascii/binary and UDP '
            'clients running on a virtual clock: the call must return a response or error object without raising within a time and '
            'transport-operation bound, send at most 1+retries identical frames, honour retry_on_empty / retry_on_invalid, and a '
            'follow-up transaction over the healed transport must return its own reply. All scripts up to length 2 (thorough 3) '
            'are enumerated exhaustively.',
            'Virtual-time transports; connection establishment always succeeds (excepted by the property).',
            'DESIGN.md 4 C13'),
    'C14': ('exhaustive sweep of every predicting request class x quantity against the real server path + real serial client over a scripted virtual-time port (hypothesis for the rest)',
            'Every request class that predicts its reply size is swept over its whole quantity range and the prediction compared '
            'with the PDU length of the response the real server path returns; a real ModbusSerialClient then performs '
            'transactions (normal and exception replies, rtu/ascii/binary) over a scripted serial port whose peer is that server '
            'path, and the read sizes it asks for must sum to exactly the reply frame with no short read and nothing left '
            'unread; framing constants incl. TLS are compared with the reference frame overheads.',
            'Virtual-time FakeSerial (vlib/transports.py); Force Listen Only excluded; binary frames with delimiter bytes excluded.',
            'DESIGN.md 4 C14'),
    'C15': ('hypothesis thread schedules executed by a deterministic baton scheduler with a schedule-aware lock + depth-first enumeration of all schedules for small shapes; oracle over the transport event log',
            'Real threads share one real client over the scripted virtual-time transport; a baton-passing scheduler owns every '
            'context switch (yield points at connect/send/receive and lock acquisition) and replays a generated schedule; the '
            'transport log must show mutually exclusive transactions, whole frames and every caller receiving the reply computed '
            'from its own request, with no deadlock; all schedules of small thread/transaction shapes are enumerated depth-first.',
            'Pre-emption only at transport operations and lock acquisitions (as the property states).',
            'DESIGN.md 4 C15'),
    'C16': ('hypothesis operation histories on a Twisted client protocol over a StringTransport (issue / reply in any order / coalesce / split / unsolicited / duplicate / connection loss); oracle = tid -> deferred model; id-space wrap history',
            'Generated histories drive the real ModbusClientProtocol (TCP dictionary manager and serial FIFO manager) in-process: '
            'each deferred must fire exactly once with the reply carrying its transaction id and scripted values whatever the '
            'arrival order, coalescing or splitting; unsolicited and duplicate replies must fire nothing; connection loss must '
            'fail every pending deferred and later requests; ids on the wire must be distinct among outstanding requests, also '
            'across a 70000-request wrap history with one long-outstanding request.',
            'StringTransport stands for the reactor transport.',
            'DESIGN.md 4 C16'),
    'C17': ('hypothesis multi-connection scripts (interleaved chunk schedules) played to sync / asyncio / Twisted front-ends; differential oracle + reference model in completion order',
            'Generated scripts of 1..3 connections (or datagram peers) with chunked request streams and a generated merge '
            'order are played identically to the sync threaded (handler threads in lock-step), asyncio and Twisted front-ends; '
            'per-connection response byte streams and final table dumps must be identical across front-ends and must equal '
            'what the reference model predicts when requests are applied in completion order.',
            'Diagnostic-counter requests and broadcast are outside the comparison (not common to all front-ends).',
            'DESIGN.md 4 C17'),
    'C18': ('hypothesis operation histories on blocks / slave contexts / server contexts vs a dict model; exhaustive small-block sweeps',
            'Generated histories of validate/get/set/reset on sequential and sparse blocks with boundary-directed addresses, '
            'of function-code-addressed operations on a slave context (zero-mode on/off), and of set/get/del/contains on '
            'server contexts, each step compared with a dictionary model (full block dump after every step); plus exhaustive '
            'sweeps of all (start,size,address,count) for small sequential blocks and all key subsets of a small sparse block.',
            'Only ranges the model accepts are read/written (callers validate first); deletion of unregistered ids is not judged.',
            'DESIGN.md 4 C18'),
    'C19': ('hypothesis generated typed-value sequences; oracle = round trip + independent layout function',
            'Generated-input search: thousands of typed value sequences x all four byte/word orders x both transports, '
            'each compared with an exact round trip and an independently written register-image function; plus a '
            'boundary sweep per type. Exploration is the right level: the domain is a product of full integer/float '
            'ranges, not enumerable, and the oracle is exact.',
            'Trusts struct.pack at native width as IEEE reference and the harness layout function (DESIGN 4/C19).',
            'DESIGN.md 4 C19'),
    'C20': ('hypothesis generated identities and requests; oracle = client-side chain following against the configured object set, PDU size bound, termination bound',
            'Generated identities (any id subset, value lengths 0..245 size-biased around page breaks), all read codes and start '
            'ids; the whole request/response chain a client performs is executed through ServerDecoder/execute/encode/ClientDecoder '
            'and the union of pages is compared as a multiset with the configured non-empty objects of the category; every PDU '
            '<= 253 bytes; chain must end within #objects+2 pages. Sweep of every single-object length.',
            'Completeness is judged for start id 0 or a populated id of the category and for identities whose objects fit a PDU (<=244 bytes).',
            'DESIGN.md 4 C20'),
}

ALL = ['C%02d' % i for i in range(1, 21)]


def rule_of(mod_path):
    """the RULE text the check writes into its evidence file (kept up to date with the generator)"""
    import ast
    tree = ast.parse(open(mod_path).read())
    for node in tree.body:
        if isinstance(node, ast.Assign) and any(getattr(t, 'id', None) == 'RULE' for t in node.targets):
            return ast.literal_eval(node.value)
    return ''


COMMON = (' Every run first replays the saved inputs of the check (regress/: shrunk failing cases of every defect found or seeded '
          'so far), then the deterministic sweeps, then the generated search (every fourth shard with DEBUG logging enabled); every '
          'case runs under a real-time watchdog that reports code that does not terminate.')


def main():
    checks = []
    na = []
    for pid in ALL:
        mod = os.path.join(HERE, 'checks', pid.lower() + '.py')
        if pid in CHECKS and os.path.exists(mod):
            tech, text, note, ref = CHECKS[pid]
            text = text + COMMON + ' Generator and oracle as run now: ' + rule_of(mod)
            checks.append({
                'property_id': pid,
                'quick_cmd': '%s run_check.py %s --tier quick' % (PY, pid),
                'thorough_cmd': '%s run_check.py %s --tier thorough' % (PY, pid),
                'evidence_file': 'evidence/%s.json' % pid,
                'replay_cmd_template': '%s run_check.py %s --replay {path}' % (PY, pid),
                'engine': 'pbt',
                'level_claimed': {'category': 'exploration', 'text': text, 'design_ref': ref},
                'level_note': note,
                'technique': tech,
            })
        else:
            na.append({'property_id': pid,
                       'reason': 'check not built yet in this revision of /verif (planned: property-based check, see DESIGN.md section 4); '
                                 'not a statement that the technique cannot apply'})
    man = {
        'version': 1,
        'setup_cmd': 'sh tools/setup.sh',
        'hooks': {
            'guard': 'PYMODBUS_VERIF',
            'enable': 'none needed: checks drive the unmodified sources in-process (fake transports, module-namespace '
                      'rebinding of time/select/socket/serial/RLock); run_check.py exports PYMODBUS_VERIF=1 for uniformity',
            'baseline_off_cmd': 'cd /repo && /venv/bin/python -m pytest -ra -q -p no:cacheprovider --timeout=900 '
                                '--continue-on-collection-errors',
            'source_commits': [],
            'add_only': True,
        },
        'engines': [{
            'name': 'pbt', 'path': 'run_check.py',
            'serves_properties': [c['property_id'] for c in checks],
            'kind_free_text': 'Hypothesis 6.168 generated-input search against explicit oracles (vlib/: independent spec codec, '
                              'reference framing + bitwise CRC/LRC, register-file model, in-process drivers for all server '
                              'front-ends, virtual-time scripted transports, deterministic thread scheduler), exhaustive '
                              'sweeps of finite sub-domains, atheris stage in thorough tiers where stated',
        }],
        'checks': checks,
        'notes': 'All checks: exit 0 held / exit 1 + VIOLATION line / exit 2 harness error. VERIF_SEED selects the Hypothesis seed '
                 '(shard i uses seed*1000+i). VERIF_REPO overrides the tree under test (sensitivity experiments only). '
                 'known_findings.json lists recorded genuine defects (KNOWN-FINDING lines) and fixed ones. '
                 'VERIF_HANG_S (default 600) is the per-case watchdog; VERIF_NO_REGRESS=1 skips the saved inputs (used when harvesting them).',
        'not_applicable': na,
    }
    with open(os.path.join(HERE, 'MANIFEST.json'), 'w') as fh:
        json.dump(man, fh, indent=1)
        fh.write('\n')
    print('claimed', [c['property_id'] for c in checks])


if __name__ == '__main__':
    main()
