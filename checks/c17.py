"""C17 All server front-ends are behaviourally interchangeable."""
from hypothesis import strategies as st

from vlib import frontends, gens, kinds, model, pm, refframe, specpdu
from vlib.engine import Disc, Outcome
from checks import c04, c09

PID = 'C17'
RULE = ('Hypothesis: initial datastore + 1..3 connections each with 1..4 requests (FC 1-6,15,16,22,23 valid or with one fault; '
        'Read Device Identification and Report Slave Id) on framing tcp/rtu/ascii/binary, single or multi-unit context, '
        'ignore_missing_slaves; stream variant: each connection\'s bytes cut into chunks (cuts may fall inside frames) and a '
        'generated merge order interleaves the chunks of all connections; datagram variant: one frame per datagram, merge '
        'order over peers. The same script is played to the sync threaded, asyncio and Twisted front-ends of that variant '
        '(sync handlers run as threads in lock-step with the driver). Oracle: differential - byte-identical per-connection '
        'response streams and identical final table dumps across front-ends - plus the reference model applied in completion '
        'order predicts every data-access response byte-for-byte (so identically wrong copies do not pass). Non-trivial: >=2 '
        'connections with interleaved chunks, or a write followed by a read on another connection; distinct by SHA-1. Requests carry a generated MBAP protocol id; in single mode every kind of unit id (0, 127, 128, 247..255) is addressed; datagrams may carry two requests. Histories with one connection are also run on the threaded serial front-end; a request may be repeated byte for byte and a stream may deliver one whole request per read (also as a sweep over every framing).')
ASSUMPTIONS = ['requests whose answer depends on process-wide diagnostic counters (FC 7, 8, 11, 12) are not generated (the Twisted copy counts bus messages, the property restricts itself to data access and identification)',
               'broadcast is not generated (Twisted has no broadcast option)',
               'binary scripts containing delimiter bytes in any frame are excluded and counted']
BUDGET = {'quick': 2400, 'thorough': 4000}

LAY = c09.SMALL_LAYOUT
STREAM_FES = ['sync_tcp', 'aio_tcp', 'tw_tcp']
DGRAM_FES = ['sync_udp', 'aio_udp', 'tw_udp']


@st.composite
def _req(draw):
    which = draw(st.sampled_from(['w', 'w', 'r', 'r', 'bad', 'id']))
    if which == 'id':
        if draw(st.booleans()):
            return specpdu.encode('req:43', {'read_code': draw(st.integers(1, 4)), 'object_id': draw(st.sampled_from([0, 1, 2, 3, 0x80]))})
        return specpdu.encode('req:17', {})
    a = draw(st.sampled_from([0, 1, 2, 3, 10, 38, 39]))
    if which == 'bad':
        fc = draw(st.sampled_from([1, 3, 5, 6, 16]))
        if fc in (1, 3):
            f = draw(st.sampled_from([{'address': 40, 'quantity': 1}, {'address': 39, 'quantity': 2}, {'address': 0, 'quantity': 0},
                                      {'address': 0, 'quantity': 126 if fc == 3 else 2001}]))
        elif fc == 5:
            f = draw(st.sampled_from([{'address': 40, 'value': 0xFF00}, {'address': 1, 'value': 0x1234}]))
        elif fc == 6:
            f = {'address': 40 + draw(st.integers(0, 100)), 'value': 7}
        else:
            f = {'address': 39, 'registers': [1, 2]}
        return specpdu.encode('req:%d' % fc, f)
    if which == 'r':
        fc = draw(st.sampled_from([1, 2, 3, 4]))
        return specpdu.encode('req:%d' % fc, {'address': a, 'quantity': draw(st.integers(1, 40 - a))})
    fc = draw(st.sampled_from([5, 6, 15, 16, 22, 23]))
    if fc == 5:
        f = {'address': a, 'value': draw(st.sampled_from([0xFF00, 0]))}
    elif fc == 6:
        f = {'address': a, 'value': draw(st.integers(0, 0xFFFF))}
    elif fc == 15:
        f = {'address': a, 'bits': draw(st.lists(st.booleans(), min_size=1, max_size=min(9, 40 - a)))}
    elif fc == 16:
        f = {'address': a, 'registers': draw(st.lists(st.integers(0, 0xFFFF), min_size=1, max_size=min(3, 40 - a)))}
    elif fc == 22:
        f = {'address': a, 'and_mask': draw(st.integers(0, 0xFFFF)), 'or_mask': draw(st.integers(0, 0xFFFF))}
    else:
        f = {'read_address': draw(st.sampled_from([0, 2, 30])), 'read_quantity': draw(st.integers(1, 5)), 'write_address': a,
             'registers': draw(st.lists(st.integers(0, 0xFFFF), min_size=1, max_size=min(2, 40 - a)))}
    return specpdu.encode('req:%d' % fc, f)


@st.composite
def _case(draw):
    variant = draw(st.sampled_from(['stream', 'stream', 'datagram']))
    framing = draw(st.sampled_from(['tcp', 'tcp', 'rtu', 'ascii', 'binary']))
    single = draw(st.booleans())
    # hosting unit 0 switches the framers' unit filter off: most multi-unit contexts are drawn without it
    pool = draw(st.sampled_from([[1, 2, 17, 247], [1, 2, 17, 247], [0, 1, 2, 17, 247]]))
    hosted = sorted(draw(st.lists(st.sampled_from(pool), min_size=1, max_size=3, unique=True))) if not single else [0]
    nconn = draw(st.integers(1, 3))
    conns = []
    tid = 0
    for c in range(nconn):
        reqs = []
        for _ in range(draw(st.integers(1, 4))):
            tid += 1
            uid = draw(st.one_of(st.sampled_from(hosted), st.sampled_from([1, 2, 9]),
                                 st.sampled_from([0, 1, 127, 128, 247, 248, 250, 254, 255]) if single else st.sampled_from([1, 2, 9])))
            if reqs and draw(st.sampled_from([False, False, False, False, True])):
                # the previous request once more, byte for byte on the framings without a transaction id (a master repeating
                # a write; the response to FC 5 / 6 is itself an echo of the request)
                reqs.append(dict(reqs[-1], tid=tid))
                continue
            reqs.append({'uid': uid, 'tid': tid, 'pdu': draw(_req()).hex(),
                         # MBAP protocol identifier of the request (socket framing only); clients send 0
                         'pid': draw(st.sampled_from([0, 0, 0, 0, 1, 0xFFFF, 0x0100]))})
        # stream: arbitrary cuts, or one whole request per read (with some reads carrying two: 'pack')
        conns.append({'requests': reqs, 'cuts': draw(st.one_of(gens.cuts(), gens.cuts(), st.just(['frames']))) if variant == 'stream' else ['frames']})
    merge = draw(st.lists(st.integers(0, nconn - 1), min_size=0, max_size=20))
    return {'variant': variant, 'framing': framing, 'single': single, 'hosted': hosted,
            'ignore_missing_slaves': draw(st.booleans()), 'conns': conns, 'merge': merge,
            # stream: idle receive time-outs (only taken at points where that connection has no partial frame pending);
            # datagram: which datagrams arrive back to back, before the server gets a turn
            'idle': draw(st.lists(st.integers(0, 30), min_size=0, max_size=3)),
            'burst': draw(st.lists(st.booleans(), min_size=0, max_size=12)),
            # datagram variant: consecutive requests of one peer that travel in ONE datagram
            'pack': draw(st.lists(st.booleans(), min_size=0, max_size=8))}


def strategy(tier):
    return _case()


def sweeps(tier):
    """histories in which a request is repeated byte for byte (the answer to FC 5 / 6 is an echo of the request, so the
    repeated request also equals the front-end's own last transmission), one whole request per read, on every framing"""
    cases = []
    writes = ['0600050007', '0500030000', '050003ff00', '0600000000', '10000200010200ff', '0f00010003010' + '5', '0300050001', '0100030004']
    for framing in ['tcp', 'rtu', 'ascii', 'binary']:
        for variant in ('stream', 'datagram'):
            for w in writes:
                for reps in (2, 3, 4):
                    for same_tid in ((False, True) if framing == 'tcp' else (False,)):
                        reqs = [{'uid': 1, 'tid': 7 if same_tid else 7 + i, 'pdu': w, 'pid': 0} for i in range(reps)]
                        reqs.append({'uid': 1, 'tid': 40, 'pdu': '0300000008', 'pid': 0})
                        reqs.append({'uid': 1, 'tid': 41, 'pdu': '0100000008', 'pid': 0})
                        for single, hosted in ((False, [1]), (True, [0])):
                            cases.append({'variant': variant, 'framing': framing, 'single': single, 'hosted': hosted,
                                          'ignore_missing_slaves': False, 'conns': [{'requests': reqs, 'cuts': ['frames']}],
                                          'merge': [], 'idle': [], 'burst': [], 'pack': []})
    return [('repeated-identical-requests-one-per-read', cases, False)]


def _script(case):
    """-> (script [(conn, chunk)], completion order [(conn, request index)], frames per conn)"""
    framing = case['framing']
    per_conn_chunks = []
    frames = []
    for c in case['conns']:
        fs = [refframe.build(framing, r['uid'], bytes.fromhex(r['pdu']), r['tid'], r.get('pid', 0) if framing == 'tcp' else 0) for r in c['requests']]
        frames.append(fs)
        if c['cuts'] == ['frames']:
            packed, pk = [], list(case.get('pack') or [])
            for i_, f_ in enumerate(fs):
                if packed and i_ - 1 < len(pk) and pk[i_ - 1]:
                    packed[-1] = packed[-1] + f_          # two whole requests in one datagram
                else:
                    packed.append(f_)
            per_conn_chunks.append(packed)
        else:
            per_conn_chunks.append([x for x in gens.apply_cuts(b''.join(fs), c['cuts'])])
    # merge: take next chunk of the named connection; afterwards drain the rest round-robin
    pos = [0] * len(per_conn_chunks)
    script = []
    order = list(case['merge'])
    while True:
        if order:
            k = order.pop(0)
        else:
            remaining = [i for i in range(len(pos)) if pos[i] < len(per_conn_chunks[i])]
            if not remaining:
                break
            k = remaining[0]
        if pos[k] < len(per_conn_chunks[k]):
            script.append((k, per_conn_chunks[k][pos[k]]))
            pos[k] += 1
    # completion order
    delivered = [0] * len(frames)
    done = [0] * len(frames)
    completion = []
    for k, chunk in script:
        delivered[k] += len(chunk)
        end = 0
        for i, f in enumerate(frames[k]):
            end += len(f)
            if i >= done[k] and delivered[k] >= end:
                completion.append((k, i))
                done[k] = i + 1
    # decorate: idle time-outs at frame-aligned points (stream), burst flags (datagram)
    out = []
    delivered = [0] * len(frames)
    bounds = []
    for fs in frames:
        b, acc = set([0]), 0
        for f in fs:
            acc += len(f)
            b.add(acc)
        bounds.append(b)
    idle = set(case.get('idle', []))
    burst = list(case.get('burst', []))
    for n, (k, chunk) in enumerate(script):
        if case['variant'] == 'stream' and n in idle and delivered[k] in bounds[k]:
            out.append((k, None))
        delivered[k] += len(chunk)
        if case['variant'] == 'datagram' and n < len(burst) and burst[n] and n + 1 < len(script):
            out.append((k, chunk, 'burst'))
        else:
            out.append((k, chunk))
    return out, completion, frames


def run_case(case):
    framing, single, hosted, ignore = case['framing'], case['single'], case['hosted'], case['ignore_missing_slaves']
    labels = ['variant:' + case['variant'], 'framing:' + framing, 'single:%s' % single, 'conns:%d' % len(case['conns'])]
    script, completion, frames = _script(case)
    # ---- model prediction
    units = [0] if single else hosted
    models = dict((u, model.SlaveModel(LAY)) for u in units)
    predicted = dict((k, []) for k in range(len(case['conns'])))
    predictable = dict((k, True) for k in range(len(case['conns'])))
    wrote = set()
    cross = False
    for k, i in completion:
        r = case['conns'][k]['requests'][i]
        pdu = bytes.fromhex(r['pdu'])
        uid = r['uid']
        if not c09.accepted_by_filter(uid, single, hosted, False) and ignore:
            continue
        if not single and uid not in hosted:
            if not ignore:
                # C10 allows silence or a gateway exception (0x0A / 0x0B) here; the front-ends only have to agree
                predicted[k].append(('gateway', uid, r['tid'], pdu[0]))
            continue
        if pdu[0] in (43, 17):
            predicted[k].append(None)        # differential only
            continue
        m = models[0 if single else uid]
        a = model.abstract_request(pdu)
        outcomes, primary = m.classify(a)
        if primary == 'normal':
            kind, f = m.apply(a)
            rp = specpdu.encode(kind, f)
            if pdu[0] in (5, 6, 15, 16, 22, 23):
                wrote.add(k)
            elif wrote - set([k]):
                cross = True
        else:
            rp = bytes([pdu[0] | 0x80, primary])
        predicted[k].append(refframe.build(framing, uid, rp, r['tid'], 0))
    if framing == 'binary':
        allf = [f for fs in frames for f in fs] + [p for ps in predicted.values() for p in ps if isinstance(p, bytes)]
        if any(refframe.binary_fragile(f) for f in allf):
            return Outcome([], labels + ['excluded-binary-delimiter'], False)
    nonzero_pid = framing == 'tcp' and any(r.get('pid') for c in case['conns'] for r in c['requests'])
    if nonzero_pid:
        labels.append('nonzero-protocol-id')
    interleaved = len(case['conns']) >= 2 and any(script[i][0] != script[i + 1][0] for i in range(len(script) - 1))
    if any(len(it) > 2 for it in script):
        labels.append('burst')
    if any(it[1] is None for it in script):
        labels.append('idle-timeout')
    # ---- run every front-end of the variant
    fes = STREAM_FES if case['variant'] == 'stream' else DGRAM_FES
    if case['variant'] == 'stream' and len(case['conns']) == 1 and (single or all(r['uid'] in hosted for r in case['conns'][0]['requests'])):
        # (requests to units that are not hosted stay with the TCP front-ends: C10 allows silence or a gateway exception there)
        # the threaded serial front-end (one line, hence one connection) is a stream front-end of the synchronous family too
        fes = fes + ['sync_serial']
        labels.append('with-serial-front-end')
    results = {}
    discs = []
    for fe in fes:
        pm.reset_globals()
        _install_identity()
        ctx = c09.make_context(single, hosted, LAY)
        res = frontends.run(fe, framing, ctx, script, ignore_missing_slaves=ignore)
        dump = dict((u, model.norm_dump(model.dump_slave(s))) for u, s in ctx)
        results[fe] = (dict((k, list(res.sent.get(k, []))) for k in range(len(case['conns']))), dump, res)
        for c, e in res.escaped:
            discs.append(Disc('escaped', '%s/%s: %s' % (fe, framing, e)))
        if res.hung:
            discs.append(Disc('hung', '%s/%s' % (fe, framing)))
    pm.reset_globals()
    ref_fe = fes[0]
    for fe in fes[1:]:
        for k in range(len(case['conns'])):
            a = b''.join(results[ref_fe][0][k])
            b = b''.join(results[fe][0][k])
            if a != b:
                discs.append(Disc('front-ends-differ', '%s connection %d: %s sends %s, %s sends %s' % (framing, k, ref_fe, a.hex()[:120], fe, b.hex()[:120])))
                break
        if results[fe][1] != results[ref_fe][1]:
            discs.append(Disc('front-ends-differ-state', '%s: final tables of %s and %s differ' % (framing, ref_fe, fe)))
    # ---- model comparison (per front-end, so that three identically wrong copies do not pass)
    if not discs:
        want_dump = dict((u, model.norm_dump(models[u].dump())) for u in units)
        for fe in fes:
            sent, dump, res = results[fe]
            for k in range(len(case['conns'])):
                try:
                    got = [p_ for s_ in sent[k] for p_ in refframe.parse_many(framing, s_)]     # a write may carry several frames
                except refframe.FrameError as e:
                    discs.append(Disc('not-a-frame', '%s/%s connection %d: %s' % (fe, framing, k, e)))
                    break
                want = predicted[k]
                j = 0
                for w in want:
                    g = got[j] if j < len(got) else None
                    if isinstance(w, tuple):          # absent unit: silence or one gateway exception with the request ids
                        if g is not None and g['uid'] == w[1] and (framing != 'tcp' or g['tid'] == w[2]) and len(g['pdu']) == 2 and \
                                g['pdu'][0] == (w[3] | 0x80) and g['pdu'][1] in (0x0A, 0x0B):
                            j += 1
                        continue
                    if g is None:
                        discs.append(Disc('model-response-count', '%s/%s connection %d: %d response frames, the model predicts more' % (fe, framing, k, len(got))))
                        break
                    # the protocol id of the answer is only predicted for requests that carry 0 (what to echo otherwise is not the model's business;
                    # the front-ends still have to agree on it byte for byte)
                    if w is not None and refframe.build(framing, g['uid'] or 0, g['pdu'], g['tid'] or 0, 0 if nonzero_pid else (g['pid'] or 0)) != w:
                        discs.append(Disc('model-response', '%s/%s connection %d: sent %s, model predicts %s' % (fe, framing, k, g['pdu'].hex()[:80], w.hex()[:80])))
                        break
                    j += 1
                if not discs and j < len(got):
                    discs.append(Disc('model-response-count', '%s/%s connection %d: %d response frames, the model predicts %d' % (fe, framing, k, len(got), j)))
                if discs:
                    break
            if not discs and dump != want_dump:
                discs.append(Disc('model-state', '%s/%s: final tables differ from the model' % (fe, framing)))
            if discs:
                break
    return Outcome(discs, labels + (['interleaved'] if interleaved else []) + (['cross-connection-read-after-write'] if cross else []),
                   interleaved or cross)


def _install_identity():
    from pymodbus.device import ModbusControlBlock
    ident = ModbusControlBlock().Identity
    ident[0] = 'verif'
    ident[1] = 'PM'
    ident[2] = '2.4'
    ident[3] = 'http://example.invalid/'
    ident[0x80] = 'private'
