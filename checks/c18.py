"""C18 Datastore blocks and contexts address exactly their cells."""
from hypothesis import strategies as st

from vlib.engine import Disc, Outcome

PID = 'C18'
RULE = ('Hypothesis histories of three shapes: (1) one data block - sequential (start 0..65535, length 1..64) or sparse '
        '(any key set in any insertion order, built from a dict or from a list; one-value form; count left to its default; scalar writes) - with 1..14 operations validate/get/set/reset whose addresses and '
        'counts are drawn around every boundary (start-2..end+2, 0, 65535, counts 1..len+3); (2) a slave context over four '
        'such blocks (tables left out get the documented full-range default block) with zero-mode on/off, operations through every function code and context-level reset; (3) a server context (single or '
        'multi) with set/get/del/contains/slaves over ids -1..300. Oracle: dict model - validate(a,c) for c>=1 <=> all c '
        'cells populated; accepted read = exactly c values in address order; accepted write changes exactly those cells, '
        'key set unchanged, visible to later reads; reset = default value on the same extent; +1 offset unless zero-mode; '
        'routing single => any id, multi => exactly registered ids, registration outside 0..247 refused. get/set are only '
        'issued for ranges the model accepts (callers validate first). Non-trivial: an operation whose range touches a '
        'block boundary or a read overlapping an earlier write; distinct by SHA-1. Sparse key sets are made of runs with shuffled insertion order; multi-unit contexts may be created without a dictionary; the list returned by slaves() and the list a block was built from belong to the caller (mutating them must change nothing).')
ASSUMPTIONS = ['deleting an unregistered id is not specified by the property and is not judged',
               'the initial dict given to a multi-unit context constructor is taken as is (only __setitem__ registration is judged)']
BUDGET = {'quick': 6000, 'thorough': 20000}

FX_TABLE = {1: 'c', 5: 'c', 15: 'c', 2: 'd', 4: 'i', 3: 'h', 6: 'h', 16: 'h', 22: 'h', 23: 'h'}


@st.composite
def _block(draw, bits=None):
    if bits is None:
        bits = draw(st.booleans())
    val = st.booleans() if bits else st.integers(0, 0xFFFF)
    shape = draw(st.sampled_from(['seq', 'seq', 'sparse-dict', 'sparse-list', 'seq-scalar']))
    if shape == 'seq-scalar':
        # the documented one-value form: ModbusSequentialDataBlock(address, value)
        return {'shape': 'seq', 'start': draw(st.one_of(st.integers(0, 20), st.integers(0, 65535))), 'values': [draw(val)], 'bits': bits, 'scalar': True}
    if shape == 'seq':
        n = draw(st.integers(1, 64))
        start = draw(st.one_of(st.integers(0, 20), st.integers(0, 65535), st.just(65535 - n + 1), st.just(65536 - n - 1)))
        start = max(0, start)
        return {'shape': 'seq', 'start': start, 'values': draw(st.lists(val, min_size=n, max_size=n)), 'bits': bits}
    if shape == 'sparse-list':
        n = draw(st.integers(1, 40))
        return {'shape': 'sparse-list', 'values': draw(st.lists(val, min_size=n, max_size=n)), 'bits': bits}
    base = draw(st.one_of(st.integers(0, 10), st.integers(0, 65500)))
    if draw(st.booleans()):
        offs = draw(st.lists(st.integers(0, 40), min_size=1, max_size=25, unique=True))
    else:
        # a few runs of consecutive addresses (so that multi-cell ranges exist) with gaps between them
        offs, pos = [], 0
        for _ in range(draw(st.integers(1, 4))):
            pos += draw(st.integers(0, 3))
            n = draw(st.integers(1, 7))
            offs.extend(range(pos, pos + n))
            pos += n + 1
    keys = [base + o for o in offs]
    order = draw(st.sampled_from(['sorted', 'reversed', 'shuffled', 'shuffled']))
    if order == 'sorted':
        keys = sorted(keys)
    elif order == 'reversed':
        keys = sorted(keys, reverse=True)
    else:
        keys = draw(st.permutations(sorted(keys)))      # insertion order of the dict: the first key need not be the smallest
    return {'shape': 'sparse-dict', 'keys': list(keys), 'values': draw(st.lists(val, min_size=len(keys), max_size=len(keys))), 'bits': bits}


def _extent(b):
    if b['shape'] == 'default':
        return range(65536)
    if b['shape'] == 'seq':
        return list(range(b['start'], b['start'] + len(b['values'])))
    if b['shape'] == 'sparse-list':
        return list(range(len(b['values'])))
    return list(b['keys'])


@st.composite
def _ops(draw, blk, minlen=1, maxlen=14, with_reset=True):
    keys = _extent(blk)
    lo, hi = min(keys), max(keys)
    val = st.booleans() if blk['bits'] else st.integers(0, 0xFFFF)
    addr = st.one_of(st.integers(max(0, lo - 2), hi + 2), st.sampled_from(keys), st.sampled_from([0, 65535, lo, hi, max(0, lo - 1), hi + 1]))
    count = st.one_of(st.integers(1, 4), st.integers(1, 4), st.integers(1, len(keys) + 3))
    one = st.one_of(
        st.tuples(st.just('validate'), addr, count),
        st.tuples(st.just('get'), addr, count),
        st.tuples(st.just('set'), addr, st.lists(val, min_size=1, max_size=min(len(keys) + 2, 12))),
        st.tuples(st.just('validate'), addr, count),
        *( [st.tuples(st.just('reset'))] if with_reset else [] ))
    ops = [list(x) for x in draw(st.lists(one, min_size=minlen, max_size=maxlen))]
    # call forms: count left to its default of 1, a single value written as a scalar
    forms = draw(st.lists(st.booleans(), min_size=len(ops), max_size=len(ops)))
    for o, short in zip(ops, forms):
        if short and o[0] in ('validate', 'get') and o[2] == 1:
            o.append('default-count')
        elif short and o[0] == 'set' and len(o[2]) == 1:
            o.append('scalar')
    return ops


@st.composite
def _block_case(draw):
    blk = draw(_block())
    ops = draw(_ops(blk))
    if blk['shape'] == 'seq' and draw(st.integers(0, 5)) == 0:
        ops.insert(draw(st.integers(0, len(ops))), ['clone-and-write'])
    if blk['shape'] == 'seq' and not blk.get('scalar') and draw(st.integers(0, 3)) == 0:
        # the application keeps using the list it handed to the constructor (a block owns its cells)
        ops.insert(draw(st.integers(0, len(ops))), ['caller-mutates-its-list'])
    return {'t': 'block', 'block': blk, 'ops': ops}


@st.composite
def _slave_case(draw):
    blocks = {'c': draw(_block(True)), 'd': draw(_block(True)), 'h': draw(_block(False)), 'i': draw(_block(False))}
    # tables the caller does not name get the documented default: all 65536 addresses, zero
    for k in sorted(blocks):
        if draw(st.integers(0, 5)) == 0:
            blocks[k] = {'shape': 'default', 'values': [], 'bits': k in 'cd'}      # bit tables are written with bits
    zero = draw(st.booleans())
    zero0 = zero
    ops = []
    n = draw(st.integers(1, 10))
    for _ in range(n):
        if draw(st.integers(0, 11)) == 0:
            ops.append([0, 'reset'])
            continue
        if draw(st.integers(0, 14)) == 0:
            ops.append([0, 'toggle-zero-mode'])        # zero_mode is a public attribute of a live context
            zero = not zero
            continue
        fx = draw(st.sampled_from(sorted(FX_TABLE)))
        o = draw(_ops(blocks[FX_TABLE[fx]], 1, 1, with_reset=False))[0]
        if o[0] != 'reset':
            # express the address in protocol terms (context adds 1 unless zero mode)
            o[1] = o[1] - (0 if zero else 1)
            if o[1] < 0:
                o[1] = 0
        ops.append([fx] + o)
    return {'t': 'slave', 'blocks': blocks, 'zero_mode': zero0, 'ops': ops}


@st.composite
def _server_case(draw):
    single = draw(st.booleans())
    ident = st.one_of(st.integers(-1, 300), st.sampled_from([0, 1, 247, 248, 255, 256]))
    initial = draw(st.lists(st.integers(0, 247), min_size=1, max_size=4, unique=True))
    reg = st.sampled_from(initial)
    # multi-unit context created without a dictionary and filled by registration only
    no_dict = (not single) and draw(st.integers(0, 3)) == 0
    ident = st.one_of(ident, reg, reg)
    one = st.one_of(st.tuples(st.just('get'), ident), st.tuples(st.just('contains'), ident),
                    st.tuples(st.just('set'), ident), st.tuples(st.just('del'), ident), st.tuples(st.just('slaves')),
                    st.tuples(st.just('get'), reg), st.tuples(st.just('get'), reg), st.tuples(st.just('del'), reg))
    return {'t': 'server', 'single': single, 'initial': initial, 'no_dict': no_dict,
            'ops': [list(x) for x in draw(st.lists(one, min_size=1, max_size=12))]}


def strategy(tier):
    return st.one_of(_block_case(), _block_case(), _slave_case(), _server_case())


def sweeps(tier):
    """Exhaustive (start,size,address,count) for small sequential blocks and all subsets of a small sparse key space."""
    cases = []
    for start in (0, 1, 5, 65530):
        for size in range(1, 7 if tier == 'thorough' else 4):
            vals = list(range(100, 100 + size))
            for a in range(max(0, start - 2), start + size + 3):
                for c in range(1, size + 3):
                    cases.append({'t': 'block', 'block': {'shape': 'seq', 'start': start, 'values': vals, 'bits': False},
                                  'ops': [['validate', a, c], ['get', a, c], ['set', a, [7] * c], ['get', a, c]]})
    out = [('sequential-small-exhaustive', cases, True)]
    cases = []
    nk = 6 if tier == 'thorough' else 4
    for mask in range(1, 1 << nk):
        keys = [3 + i for i in range(nk) if mask >> i & 1]
        for a in range(1, 3 + nk + 2):
            for c in range(1, nk + 2):
                cases.append({'t': 'block', 'block': {'shape': 'sparse-dict', 'keys': keys, 'values': [9] * len(keys), 'bits': False},
                              'ops': [['validate', a, c], ['set', a, [5] * c], ['get', a, c]]})
                if c >= 2:
                    # distinct values, keys inserted in descending order: a read has to come back in address order
                    cases.append({'t': 'block', 'block': {'shape': 'sparse-dict', 'keys': keys[::-1], 'values': [100 + k for k in keys[::-1]], 'bits': False},
                                  'ops': [['get', a, c], ['set', a, [200 + i for i in range(c)]], ['get', a, c]]})
    out.append(('sparse-all-key-subsets', cases, True))
    return out


def _make_block(b, keep=None):
    from pymodbus.datastore.store import ModbusSequentialDataBlock, ModbusSparseDataBlock
    if b['shape'] == 'default':
        return None
    if b['shape'] == 'seq':
        if b.get('scalar'):
            return ModbusSequentialDataBlock(b['start'], b['values'][0])
        if keep is not None:
            keep.extend(b['values'])
            return ModbusSequentialDataBlock(b['start'], keep)
        return ModbusSequentialDataBlock(b['start'], list(b['values']) if len(b['values']) % 2 else tuple(b['values']))
    if b['shape'] == 'sparse-list':
        return ModbusSparseDataBlock(list(b['values']))
    return ModbusSparseDataBlock(dict(zip(b['keys'], b['values'])))


def _model(b):
    if b['shape'] == 'default':
        return dict.fromkeys(range(65536), 0)
    return dict(zip(_extent(b), b['values']))


def _dump(block):
    return dict((int(k), v) for k, v in block)


def _apply(block, model, default, op, discs, labels, written, tag=''):
    """Run one op on block and model; returns False to stop."""
    name = op[0]
    if name == 'reset':
        block.reset()
        for k in model:
            model[k] = default
        written.clear()
    else:
        a = op[1]
        c = op[2] if name != 'set' else len(op[2])
        ok = all((a + i) in model for i in range(c))
        lo, hi = min(model), max(model)
        if a in (lo, hi) or a + c - 1 in (lo, hi) or a + c - 1 == hi + 1 or a == lo - 1:
            labels.append('touches-boundary')
        form = op[3] if len(op) > 3 else None
        if form:
            labels.append('form:' + form)
        got = block.validate(a) if form == 'default-count' else block.validate(a, c)
        if bool(got) != ok:
            discs.append(Disc('validate', '%svalidate(%d,%d) = %r, populated=%r (extent %d..%d, %d cells)' % (tag, a, c, got, ok, lo, hi, len(model))))
            return False
        if ok and name == 'get':
            vals = block.getValues(a) if form == 'default-count' else block.getValues(a, c)
            want = [model[a + i] for i in range(c)]
            if list(vals) != want:
                discs.append(Disc('read', '%sgetValues(%d,%d) = %r, model %r' % (tag, a, c, list(vals)[:20], want[:20])))
                return False
            if any((a + i) in written for i in range(c)):
                labels.append('read-after-write')
        if ok and name == 'set':
            block.setValues(a, op[2][0] if form == 'scalar' else list(op[2]))
            for i, v in enumerate(op[2]):
                model[a + i] = v
                written.add(a + i)
    cur = _dump(block)
    if cur != model:
        extra = sorted(set(cur) - set(model))[:5]
        missing = sorted(set(model) - set(cur))[:5]
        diff = [(k, cur[k], model[k]) for k in sorted(set(cur) & set(model)) if cur[k] != model[k]][:5]
        discs.append(Disc('state', '%safter %r: extra cells %r, missing cells %r, wrong values (addr, got, want) %r' % (tag, op, extra, missing, diff)))
        return False
    return True


def _run_block(case):
    b = case['block']
    discs, labels = [], ['block:' + b['shape']]
    mine = [] if any(op[0] == 'caller-mutates-its-list' for op in case['ops']) else None
    block = _make_block(b, mine)
    model = _model(b)
    default = False if b['bits'] else 0
    written = set()
    try:
        if _dump(block) != model:
            discs.append(Disc('initial-state', 'block built from %r iterates as %r' % (b, sorted(_dump(block).items())[:10])))
        else:
            for op in case['ops']:
                labels.append('op:' + op[0])
                if op[0] == 'clone-and-write':
                    # a second block built from the cells of this one (`values` of the first): writing to the copy must not show here
                    from pymodbus.datastore.store import ModbusSequentialDataBlock
                    other = ModbusSequentialDataBlock(b['start'], block.values)
                    other.setValues(b['start'], [(not block.values[0]) if b['bits'] else (block.values[0] ^ 0x0F0F)])
                    other.reset()
                    if _dump(block) != model:
                        discs.append(Disc('state', 'writing to / resetting a block built from the values of this block changed this block: %r' % sorted(_dump(block).items())[:6]))
                        break
                    continue
                if op[0] == 'caller-mutates-its-list':
                    for i_ in range(len(mine)):
                        mine[i_] = (not mine[i_]) if b['bits'] else (mine[i_] ^ 0x5A5A)
                    mine.append(True if b['bits'] else 0x1234)
                    if _dump(block) != model:
                        discs.append(Disc('state', 'the application changed the list it had passed to the constructor and the block changed with it: %r' % sorted(_dump(block).items())[:6]))
                        break
                    continue
                if not _apply(block, model, default, op, discs, labels, written):
                    break
    except Exception as e:
        discs.append(Disc('raises', '%s block, ops %r: %s: %s' % (b['shape'], case['ops'], type(e).__name__, e)))
    return Outcome(discs, labels, 'touches-boundary' in labels or 'read-after-write' in labels)


def _run_slave(case):
    from pymodbus.datastore.context import ModbusSlaveContext
    blocks = dict((k, _make_block(b)) for k, b in case['blocks'].items())
    models = dict((k, _model(b)) for k, b in case['blocks'].items())
    kw = dict((name, blocks[k]) for name, k in (('di', 'd'), ('co', 'c'), ('hr', 'h'), ('ir', 'i')) if blocks[k] is not None)
    ctx = ModbusSlaveContext(zero_mode=case['zero_mode'], **kw)
    for k in blocks:
        if blocks[k] is None:
            blocks[k] = ctx.store[k]
    big = set(k for k, b in case['blocks'].items() if b['shape'] == 'default')
    off = 0 if case['zero_mode'] else 1
    zero_now = bool(case['zero_mode'])
    discs, labels = [], ['slave', 'zero_mode:%s' % case['zero_mode']] + (['default-tables:%d' % len(big)] if big else [])
    written = dict((k, set()) for k in blocks)

    def tables_agree(op, window=None):
        for k in sorted(blocks):
            if k in big and window is not None:
                lo_, hi_ = max(0, window[0] - 3), min(65535, window[1] + 3)
                got_ = list(blocks[k].getValues(lo_, hi_ - lo_ + 1))
                if got_ != [models[k][x] for x in range(lo_, hi_ + 1)]:
                    discs.append(Disc('state', 'after %r defaulted table %s differs from the model around %d..%d (a write leaked into or missed a table)' % (op, k, lo_, hi_)))
                    return False
            elif _dump(blocks[k]) != models[k]:
                discs.append(Disc('state', 'after %r table %s differs from the model (a write leaked into or missed a table)' % (op, k)))
                return False
        return True
    try:
        for op in case['ops']:
            if op[1] == 'toggle-zero-mode':
                labels.append('zero-mode-switched')
                zero_now = not zero_now
                ctx.zero_mode = zero_now
                off = 0 if zero_now else 1
                continue
            if op[1] == 'reset':
                labels.append('slave-reset')
                ctx.reset()
                for k in models:
                    d_ = False if case['blocks'][k]['bits'] else 0
                    for x in models[k]:
                        models[k][x] = d_
                    written[k].clear()
                if not tables_agree(op):
                    break
                continue
            fx, name, a = op[0], op[1], op[2]
            t = FX_TABLE[fx]
            model = models[t]
            c = op[3] if name != 'set' else len(op[3])
            form = op[4] if len(op) > 4 else None
            ok = all((a + off + i) in model for i in range(c))
            labels.append('fx:%d' % fx)
            lo, hi = min(model), max(model)
            if a + off in (lo, hi) or a + off + c - 1 in (lo, hi, hi + 1):
                labels.append('touches-boundary')
            got = ctx.validate(fx, a) if form == 'default-count' else ctx.validate(fx, a, c)
            if bool(got) != ok:
                discs.append(Disc('validate', 'context.validate(fx=%d, %d, %d) = %r, model %r (zero_mode=%r, table %s extent %d..%d)' % (fx, a, c, got, ok, zero_now, t, lo, hi)))
                break
            if ok and name == 'get':
                vals = ctx.getValues(fx, a) if form == 'default-count' else ctx.getValues(fx, a, c)
                want = [model[a + off + i] for i in range(c)]
                if list(vals) != want:
                    discs.append(Disc('read', 'context.getValues(fx=%d, %d, %d) = %r, model %r' % (fx, a, c, list(vals)[:20], want[:20])))
                    break
                if any((a + off + i) in written[t] for i in range(c)):
                    labels.append('read-after-write')
            if ok and name == 'set':
                ctx.setValues(fx, a, list(op[3]))
                for i, v in enumerate(op[3]):
                    model[a + off + i] = v
                    written[t].add(a + off + i)
            if not tables_agree(op, (a + off, a + off + c - 1)):
                break
        if not discs:
            for k in sorted(big):
                if _dump(blocks[k]) != models[k]:
                    discs.append(Disc('state', 'at the end defaulted table %s differs from the model somewhere outside the windows looked at' % k))
                    break
    except Exception as e:
        discs.append(Disc('raises', 'slave context ops %r: %s: %s' % (case['ops'], type(e).__name__, e)))
    return Outcome(discs, labels, 'touches-boundary' in labels or 'read-after-write' in labels)


def _run_server(case):
    from pymodbus.datastore.context import ModbusServerContext
    from pymodbus.exceptions import NoSuchSlaveException
    single = case['single']
    discs, labels = [], ['server', 'single:%s' % single]
    nt = False
    if single:
        ctx = ModbusServerContext(slaves='ctx-init', single=True)
        model = {'only': 'ctx-init'}
    elif case.get('no_dict'):
        labels.append('built-without-dict')
        ctx = ModbusServerContext(single=False)
        model = {}
        if sorted(ctx.slaves()) != []:
            return Outcome([Disc('registry', 'a multi-unit context created without a dictionary starts with registered ids %r' % sorted(ctx.slaves()))], labels, True)
        for i in case['initial']:
            ctx[i] = 'ctx-%d' % i
            model[i] = 'ctx-%d' % i
    else:
        init = dict((i, 'ctx-%d' % i) for i in case['initial'])
        ctx = ModbusServerContext(slaves=dict(init), single=False)
        model = dict(init)
    n = 0
    try:
        for op in case['ops']:
            n += 1
            name = op[0]
            labels.append('op:' + name)
            if name == 'slaves':
                lst = ctx.slaves()
                got = sorted(lst)
                if not single and got != sorted(model):
                    discs.append(Disc('slaves', 'slaves() = %r, registered %r' % (got, sorted(model))))
                    break
                # the list is the caller's (the server front-ends append the broadcast address to it): changing it registers nothing
                try:
                    lst.append(0)
                    lst.append(251)
                except AttributeError:
                    pass
                if not single and sorted(ctx.slaves()) != sorted(model):
                    discs.append(Disc('registry', 'appending to the list returned by slaves() changed the registered ids to %r (model %r)' % (sorted(ctx.slaves()), sorted(model))))
                    break
                continue
            i = op[1]
            if i in (-1, 0, 247, 248, 255, 256):
                nt = True
            if name == 'get':
                try:
                    got = ctx[i]
                    err = None
                except NoSuchSlaveException:
                    got, err = None, 'nosuch'
                if single:
                    if err or got != model['only']:
                        discs.append(Disc('route-single', 'single mode: context[%d] -> %r / %r, expected the only context' % (i, got, err)))
                        break
                elif i in model:
                    if err or got != model[i]:
                        discs.append(Disc('route-multi', 'context[%d] -> %r / %r, registered %r' % (i, got, err, model[i])))
                        break
                elif err != 'nosuch':
                    discs.append(Disc('route-unknown', 'context[%d] for an unregistered id returned %r instead of raising NoSuchSlaveException' % (i, got)))
                    break
            elif name == 'contains':
                got = i in ctx
                want = True if single else (i in model)
                if bool(got) != want:
                    discs.append(Disc('contains', '%d in context = %r, expected %r' % (i, got, want)))
                    break
            elif name == 'set':
                tag = 'ctx-new-%d-%d' % (i, n)
                try:
                    ctx[i] = tag
                    err = None
                except NoSuchSlaveException:
                    err = 'nosuch'
                if single:
                    if err:
                        discs.append(Disc('set-single', 'single mode: registering id %d raised' % i))
                        break
                    model['only'] = tag
                elif 0 <= i <= 247:
                    if err:
                        discs.append(Disc('set-refused', 'registering id %d in range was refused' % i))
                        break
                    model[i] = tag
                else:
                    if not err:
                        discs.append(Disc('set-out-of-range', 'registering id %d outside 0..247 was accepted' % i))
                        break
            elif name == 'del':
                try:
                    del ctx[i]
                    err = None
                except NoSuchSlaveException:
                    err = 'nosuch'
                except KeyError:
                    err = 'key'
                if not single and i in model:
                    if err:
                        discs.append(Disc('del', 'deleting registered id %d raised %s' % (i, err)))
                        break
                    del model[i]
                elif not single and not (0 <= i <= 247) and err != 'nosuch':
                    discs.append(Disc('del-out-of-range', 'deleting id %d outside 0..247: %r' % (i, err)))
                    break
                elif err is None and (single or i not in model):
                    # not specified; only make sure nothing registered was lost (checked below)
                    pass
            if not single and sorted(ctx.slaves()) != sorted(model):
                discs.append(Disc('registry', 'after %r registered ids are %r, model %r' % (op, sorted(ctx.slaves()), sorted(model))))
                break
    except Exception as e:
        discs.append(Disc('raises', 'server context ops %r: %s: %s' % (case['ops'], type(e).__name__, e)))
    return Outcome(discs, labels, nt or len(case['ops']) >= 3)


def run_case(case):
    if case['t'] == 'block':
        return _run_block(case)
    if case['t'] == 'slave':
        return _run_slave(case)
    return _run_server(case)
