"""C15 Concurrent callers of one synchronous client are serialised."""
from hypothesis import strategies as st

from vlib import kinds, pm, refframe, sched, specpdu, transports
from vlib.engine import Disc, Outcome

PID = 'C15'
RULE = ('Hypothesis: 2..4 real threads x 1..3 transactions each on ONE shared client (ModbusTcpClient, ModbusUdpClient, serial RTU client) over '
        'the scripted virtual-time transport; replies differ in length and some are split over two reads with a delay; the '
        'schedule is a generated list of integers consumed by a baton-passing scheduler that owns every context switch '
        '(threads yield at connect, every send, every receive and at every acquisition of the transaction lock, which is '
        'rebound to a schedule-aware re-entrant lock). Sweep: depth-first enumeration of ALL schedules for 2 threads x 1 '
        'transaction (thorough: also 2 x 2 and 3 x 1). Oracle over the transport event log: (a) from a transaction\'s first '
        'send until its call returns no other thread performs a transport operation; (b) every written frame is one whole '
        'frame; (c) each call returns the reply that is the unique function of ITS request; (d) every thread finishes (no '
        'deadlock / lost wake-up). Non-trivial: the schedule made some thread wait for the lock; distinct by SHA-1.')
ASSUMPTIONS = ['pre-emption happens only at transport operations and lock acquisitions, as the property states (not between arbitrary bytecodes)',
               'which code is protected is decided solely by the with-statement in pymodbus; the harness lock only makes waiting visible']
BUDGET = {'quick': 2500, 'thorough': 10000}


@st.composite
def _case(draw):
    nthreads = draw(st.integers(2, 4))
    ntx = [draw(st.integers(1, 3)) for _ in range(nthreads)]
    return {'client': draw(st.sampled_from(['tcp', 'tcp', 'rtu', 'udp'])), 'ntx': ntx,
            'split': draw(st.lists(st.booleans(), min_size=12, max_size=12)),
            # transmissions the peer answers by silently closing the connection (the client retries on a new connection)
            'faults': draw(st.one_of(st.just([]), st.lists(st.sampled_from([False, False, False, True]), min_size=12, max_size=12))),
            # transactions that are broadcast writes (unit 0, no reply expected)
            'bcast': draw(st.one_of(st.just([]), st.lists(st.sampled_from([False, False, True]), min_size=12, max_size=12))),
            # connection attempts that are refused (the caller of that attempt may get a connection error; nobody may hang)
            'refuse': draw(st.one_of(st.just([]), st.just([]), st.lists(st.sampled_from([False, False, True]), min_size=1, max_size=6))),
            # transactions whose request cannot be encoded: that call raises (caller error); everybody else must be unaffected
            'badreq': draw(st.one_of(st.just([]), st.just([]), st.lists(st.sampled_from([False, False, True]), min_size=12, max_size=12))),
            'schedule': draw(st.lists(st.integers(0, 3), min_size=8, max_size=120))}


def strategy(tier):
    return _case()


def sweeps(tier):
    """Stateless enumeration of all schedules (odometer over the decision vector)."""
    shapes = [('tcp', [1, 1]), ('rtu', [1, 1]), ('udp', [1, 1])]
    if tier == 'thorough':
        shapes += [('tcp', [2, 2]), ('tcp', [1, 1, 1]), ('rtu', [2, 1])]
    return [('all-schedules-%s-%s' % (c, 'x'.join(map(str, n))), _enumerate(c, n, 4000 if tier == 'quick' else 200000), True) for c, n in shapes]


def _enumerate(client, ntx, cap):
    prefix = []
    count = 0
    while count < cap:
        case = {'client': client, 'ntx': ntx, 'split': [False, True] * 6, 'schedule': list(prefix)}
        out, s = _run(case)
        count += 1
        yield case
        # next schedule: increment the last decision that has an untried alternative
        dec, taken = s.decisions, s.taken
        i = len(dec) - 1
        while i >= 0 and taken[i] + 1 >= dec[i]:
            i -= 1
        if i < 0:
            return
        prefix = taken[:i] + [taken[i] + 1]


class ReplyPeer(transports.Peer):
    def __init__(self, framing, split, faults=(), stream=True):
        transports.Peer.__init__(self)
        self.stream = stream          # a datagram reply is never split
        self.framing = framing
        self.split = split
        self.faults = list(faults)
        self.n = 0
        self.bad = []

    def on_write(self, conn, data):
        self.n += 1
        try:
            p = refframe.parse_one(self.framing, data)
        except refframe.FrameError as e:
            self.bad.append((data, str(e)))
            return []
        kind, f = specpdu.decode('req', p['pdu'])
        if kind != 'req:3':
            return []                      # a broadcast write: nobody answers
        if self.faults and self.faults[self.n % len(self.faults)]:
            return [('close', 0.0)]        # the peer drops the request and closes the connection
        a, q = f['address'], f['quantity']
        reply = specpdu.encode('rsp:3', {'registers': [(a * 3 + i + 1000) & 0xFFFF for i in range(q)]})
        frame = refframe.build(self.framing, p['uid'], reply, p['tid'] or 0, 0)
        if self.split[self.n % len(self.split)] and self.framing == 'tcp' and self.stream:
            k = 9
            return [(0.0, frame[:k]), (0.0005, frame[k:])]
        return [(0.0, frame)]


def _run(case):
    from pymodbus.client.sync import ModbusTcpClient, ModbusSerialClient, ModbusUdpClient
    from pymodbus.exceptions import ConnectionException
    pm.reset_globals()
    framing = 'rtu' if case['client'] == 'rtu' else 'tcp'
    peer = ReplyPeer(framing, case['split'], case.get('faults') or [], stream=case['client'] != 'udp')
    bc = case.get('bcast') or []
    badreq = case.get('badreq') or []
    kw = {'retries': 3, 'retry_on_empty': True, 'backoff': 0.01, 'broadcast_enable': bool(any(bc))}
    s = sched.Sched(case['schedule'])
    results = {}
    marks = []
    discs = []
    with transports.World(peer, scheduler=s) as w:
        w.connect_refusals = list(case.get('refuse') or []) if case['client'] == 'tcp' else []
        if case['client'] == 'tcp':
            client = ModbusTcpClient('peer', 502, timeout=1, **kw)
        elif case['client'] == 'udp':
            client = ModbusUdpClient('peer', 502, timeout=1, **kw)
        else:
            client = ModbusSerialClient(method='rtu', port='/dev/null', timeout=1, baudrate=115200, **kw)
        for t, n in enumerate(case['ntx']):
            def fn(t=t, n=n):
                for j in range(n):
                    addr = t * 16 + j
                    qty = 1 + (t + j) % 4
                    w.log.append(('tx-begin', s.cur, (t, j)))
                    try:
                        if badreq and badreq[(t * 5 + j) % len(badreq)]:
                            from pymodbus.register_write_message import WriteSingleRegisterRequest
                            try:
                                r = client.execute(WriteSingleRegisterRequest(addr, 0x10000, unit=1 + t))
                            except (ConnectionException, sched.Deadlock, transports.StepBudgetExceeded):
                                raise
                            except Exception as e:
                                r = e
                            qty = -1
                        elif bc and bc[(t * 3 + j) % len(bc)]:
                            r = client.write_register(addr, 7, unit=0)
                            qty = 0
                        else:
                            r = client.read_holding_registers(addr, qty, unit=1 + t)
                    except ConnectionException as e:
                        if not case.get('refuse') and not any(badreq):
                            raise
                        r = e          # a refused connection may surface as a connection error of THIS call
                        qty = -1
                    w.log.append(('tx-end', s.cur, (t, j)))
                    results[(t, j)] = (addr, qty, r)
            s.spawn('t%d' % t, fn)
        try:
            s.run()
        except sched.Deadlock as e:
            discs.append(Disc('deadlock', '%s threads %r schedule %r: %s' % (case['client'], case['ntx'], case['schedule'][:40], e)))
        except transports.StepBudgetExceeded as e:
            discs.append(Disc('no-termination', str(e)))
        log = list(w.log)
    for name, err in s.errors:
        discs.append(Disc('thread-raised', '%s: %s' % (name, err)))
    # (a) mutual exclusion of transactions on the transport
    owner = None
    for ev in log:
        op, th = ev[0], ev[1]
        if op in ('send', 'recv', 'connect', 'close'):
            if owner is not None and th != owner:
                discs.append(Disc('interleaved', '%s threads %r: %s performs %s while %s is between its send and the end of its transaction; schedule %r' % (
                    case['client'], case['ntx'], th, op, owner, s.taken[:60])))
                break
            if op == 'send':
                owner = th
        elif op == 'tx-end' and th == owner:
            owner = None
    # (b) frames whole
    for data, err in peer.bad:
        discs.append(Disc('frame-not-whole', 'written bytes %s are not one frame: %s' % (data.hex()[:60], err)))
    # (c) every caller got its own reply
    if not discs:
        for (t, j), (addr, qty, r) in sorted(results.items()):
            if qty == -1:
                continue
            if qty == 0:
                if not isinstance(r, bytes):
                    discs.append(Disc('wrong-reply', '%s thread %d tx %d: broadcast write returned %r' % (case['client'], t, j, r)))
                    break
                continue
            want = [(addr * 3 + i + 1000) & 0xFFFF for i in range(qty)]
            got = getattr(r, 'registers', None)
            if got != want and not _all_attempts_faulted(case) and not any(case.get('refuse') or []):
                discs.append(Disc('wrong-reply', '%s thread %d tx %d asked for %d registers at %d and got %r (expected %r); schedule %r' % (
                    case['client'], t, j, qty, addr, got if got is not None else r, want, s.taken[:60])))
                break
        total = sum(case['ntx'])
        if len(results) != total and not discs:
            discs.append(Disc('lost-call', '%d of %d calls returned' % (len(results), total)))
    pm.reset_globals()
    return Outcome(discs, ['client:' + case['client'], 'threads:%d' % len(case['ntx'])] + (['lock-contended'] if s.blocked_someone else []) +
                   (['faults'] if any(case.get('faults') or []) else []) + (['connect-refused'] if any(case.get('refuse') or []) else []) + (['broadcast'] if any(bc) else []) + (['unencodable-request'] if any(badreq) else []),
                   s.blocked_someone), s


def _all_attempts_faulted(case):
    # with generated faults a transaction may legitimately exhaust its retries: judged only when faults are sparse
    f = case.get('faults') or []
    return sum(1 for x in f if x) > 3


def run_case(case):
    return _run(case)[0]
