#!/venv/bin/python
"""Sensitivity helper: sens.py <Cnn>[,Cmm] <relative file> <old> <new> [--tier quick]
Copies /repo/pymodbus to a scratch dir outside /repo and /verif, applies one textual
replacement (must match exactly once unless --all), runs the quick check with
VERIF_REPO pointing at the copy and deletes the copy."""
import os, shutil, subprocess, sys, tempfile
def main():
    a = sys.argv[1:]
    allow_all = '--all' in a
    if allow_all: a.remove('--all')
    checks, rel, old, new = a[0].split(','), a[1], a[2], a[3]
    old = old.encode().decode('unicode_escape'); new = new.encode().decode('unicode_escape')
    d = tempfile.mkdtemp(prefix='vmut_', dir='/tmp')
    try:
        shutil.copytree('/repo/pymodbus', os.path.join(d, 'pymodbus'), ignore=shutil.ignore_patterns('__pycache__'))
        p = os.path.join(d, rel)
        s = open(p).read()
        n = s.count(old)
        if n == 0 or (n > 1 and not allow_all):
            print('pattern matches %d times' % n); return 2
        open(p, 'w').write(s.replace(old, new))
        rc_all = []
        for c in checks:
            env = dict(os.environ, VERIF_REPO=d, VERIF_OUT=d)
            r = subprocess.run(['/venv/bin/python', '/verif/run_check.py', c], env=env, capture_output=True, text=True, cwd='/verif')
            tail = '\n'.join((r.stdout + r.stderr).strip().splitlines()[-6:])
            print('--- %s rc=%d\n%s' % (c, r.returncode, tail))
            rc_all.append(r.returncode)
        return 0
    finally:
        shutil.rmtree(d, ignore_errors=True)
        # evidence written during a mutant run is not evidence about /repo: restore by re-running is the caller's job
sys.exit(main())
