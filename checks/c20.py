"""C20 Device identification is returned completely, in pages that fit."""
from hypothesis import strategies as st

from vlib import pm
from vlib.engine import Disc, Outcome

PID = 'C20'
RULE = ('Hypothesis: identity = any subset of object ids 0-6 and 0x80-0xFF with values (ASCII str or bytes) of length 0..245, '
        'size-biased so that empty objects, single-page and many-page answers all occur; read code 1-4; start id = 0, a '
        'populated id of the category, or any other id. Installed after a reset of the process-wide control block in one of three ways: item '
        'assignment on ModbusControlBlock().Identity, the named attributes (VendorName ...), or Identity.update(ModbusDeviceIdentification(info=...)) as '
        'the server constructors do. Oracle: follow the chain as a client does (request -> ServerDecoder -> execute -> '
        'encode -> ClientDecoder; continue at next_object_id while more_follows == 0xFF; give up after #objects+2 pages = '
        'non-termination). Every PDU <= 253 bytes; for judged start ids (0 or a populated id of the category) the pages '
        'together hold exactly the configured non-empty objects of the category from the start id on, each once with its '
        'exact value (multiset; read code 4: the one object); other start ids: size bound + termination only. '
        'Non-trivial: chain of >=2 pages or an extended read with private objects; distinct by SHA-1. Values may be blank (white space, NUL, \'0\'); sweep with every object id populated (135 objects, chains of many pages).')
ASSUMPTIONS = ['an object of >=245 bytes cannot be carried by any 253-byte PDU (7 header bytes + 2 + len), so completeness is only '
               'required of identities whose objects are <=244 bytes; termination and the size bound are required of all',
               'object order inside the answer is not judged (multiset comparison)']
BUDGET = {'quick': 6000, 'thorough': 12000}

IDS = list(range(0, 7)) + list(range(0x80, 0x100))


@st.composite
def _identity(draw):
    profile = draw(st.sampled_from(['small', 'paged', 'paged', 'mixed']))
    nmin = 3 if profile == 'paged' else 0
    ids = draw(st.lists(st.sampled_from(IDS) | st.sampled_from([0, 1, 2, 3, 6, 0x80, 0x81, 0xFF]), min_size=nmin, max_size=14, unique=True))
    objs = []
    if draw(st.booleans()):
        ids = sorted(ids)      # otherwise keep the generated (arbitrary) population order
    for i in ids:
        if profile == 'small':
            ln = draw(st.integers(0, 12))
        elif profile == 'paged':
            ln = draw(st.one_of(st.integers(40, 130), st.integers(100, 244), st.integers(0, 3)))
        else:
            ln = draw(st.one_of(st.integers(0, 12), st.integers(0, 244), st.sampled_from([0, 1, 100, 120, 122, 123, 240, 243, 244, 245])))
        text = draw(st.booleans())
        ch = draw(st.integers(0x41, 0x5A))
        if ln and draw(st.integers(0, 7)) == 0:
            # values that are "blank" to a careless filter: white space only, NUL bytes, the digit zero
            blank = draw(st.sampled_from([' ', '\n', '\t', '0', '\x00']))
            objs.append([i, 's', blank * min(ln, 9)] if text else [i, 'b', (blank.encode() * min(ln, 9)).hex()])
        elif text:
            objs.append([i, 's', chr(ch) * ln])
        else:
            objs.append([i, 'b', bytes([(ch + j) & 0xFF for j in range(ln)]).hex()])
    return objs


@st.composite
def _case(draw):
    objs = draw(_identity())
    code = draw(st.sampled_from([1, 2, 2, 3, 3, 3, 4]))
    populated = [o[0] for o in objs if len(o[2]) > 0]
    cat = _category(code)
    in_cat = [i for i in populated if i in cat]
    start = draw(st.one_of(st.just(0), st.sampled_from(in_cat) if in_cat else st.just(0), st.integers(0, 255)))
    return {'objects': objs, 'read_code': code, 'start': start,
            # how the application hands the identity over
            'install': draw(st.sampled_from(['setitem', 'setitem', 'ctor+update', 'attrs']))}


def _category(code):
    if code == 1:
        return set(range(0, 3))
    if code == 2:
        return set(range(0, 7))
    return set(range(0, 7)) | set(range(0x80, 0x100))


def strategy(tier):
    return _case()


def sweeps(tier):
    cases = []
    lens = range(0, 246) if tier == 'thorough' else list(range(0, 8)) + [118, 119, 120, 121, 122, 123, 124, 240, 241, 242, 243, 244, 245]
    for ln in lens:
        cases.append({'objects': [[0, 's', 'A' * ln]], 'read_code': 1, 'start': 0})
        cases.append({'objects': [[0, 's', 'A' * ln], [1, 's', 'B' * 5]], 'read_code': 1, 'start': 0})
        cases.append({'objects': [[0, 's', 'V'], [0x80, 'b', (b'\x01' * ln).hex()], [0x90, 's', 'x' * 7]], 'read_code': 3, 'start': 0})
        cases.append({'objects': [[1, 's', 'A' * ln]], 'read_code': 4, 'start': 1})
    out = [('single-object-lengths', cases, tier == 'thorough')]
    # identities with every private object populated (135 objects, chains of many pages)
    many = []
    for ln in (1, 2, 7, 30, 100):
        objs = [[i, 's', chr(0x41 + i) * 3] for i in range(7)] + [[i, 'b', bytes([(i + j) & 0xFF for j in range(ln)]).hex()] for i in range(0x80, 0x100)]
        for code, start in ((3, 0), (3, 0x80), (3, 0xFF), (2, 0), (1, 0), (4, 0xC8), (3, 0xC8)):
            many.append({'objects': objs, 'read_code': code, 'start': start})
            many.append({'objects': objs[::-1], 'read_code': code, 'start': start, 'install': 'ctor+update'})
    out.append(('every-object-id-populated', many, False))
    return out


def _value(o):
    return o[2].encode() if o[1] == 's' else bytes.fromhex(o[2])


def run_case(case):
    from pymodbus.device import ModbusControlBlock
    from pymodbus.mei_message import ReadDeviceInformationRequest, ReadDeviceInformationResponse
    from pymodbus.factory import ServerDecoder, ClientDecoder
    from pymodbus.pdu import ExceptionResponse
    pm.reset_globals()
    objs, code, start = case['objects'], case['read_code'], case['start']
    labels = ['read_code:%d' % code]
    discs = []
    try:
        ident = ModbusControlBlock().Identity
        install = case.get('install', 'setitem')
        labels.append('install:' + install)
        if install == 'ctor+update':
            # what every server constructor does with its identity= argument
            from pymodbus.device import ModbusDeviceIdentification
            given = ModbusDeviceIdentification(info=dict((o[0], o[2] if o[1] == 's' else bytes.fromhex(o[2])) for o in objs))
            ident.update(given)
        else:
            names = ['VendorName', 'ProductCode', 'MajorMinorRevision', 'VendorUrl', 'ProductName', 'ModelName', 'UserApplicationName']
            for o in objs:
                v_ = o[2] if o[1] == 's' else bytes.fromhex(o[2])
                if install == 'attrs' and o[0] < 7:
                    setattr(ident, names[o[0]], v_)
                else:
                    ident[o[0]] = v_
        configured = dict((o[0], _value(o)) for o in objs if len(o[2]) > 0)
        cat = _category(code)
        if code == 4:
            oversize = len(configured.get(start, b'')) >= 245
        else:
            oversize = any(len(v) >= 245 for k, v in configured.items() if k in cat)
        if code == 4:
            judged = start in configured
            expected = sorted([(start, configured[start])]) if judged else None
        else:
            judged = (start == 0 or (start in configured and start in cat))
            expected = sorted((k, v) for k, v in configured.items() if k in cat and k >= start)
        if oversize:
            judged = False
            labels.append('oversize-object')
        labels.append('judged' if judged else 'size+termination-only')
        finding_os = 'KF-MEI-OVERSIZE-OBJECT' if oversize else None

        got = []
        oid = start
        pages = 0
        limit = len(configured) + 2
        while True:
            pages += 1
            if pages > limit:
                discs.append(Disc('no-termination', 'read_code %d start %d: still more-follows after %d pages (%d objects configured); last next_object_id %d'
                                  % (code, start, pages - 1, len(configured), oid), finding_os))
                break
            req = ReadDeviceInformationRequest(code, oid)
            wire = bytes([req.function_code]) + req.encode()
            sreq = ServerDecoder().decode(wire)
            rsp = sreq.execute(None)
            pdu = bytes([rsp.function_code]) + rsp.encode()
            if len(pdu) > 253:
                discs.append(Disc('pdu-too-long', 'read_code %d object %d: response PDU of %d bytes' % (code, oid, len(pdu))))
                break
            crsp = ClientDecoder().decode(pdu)
            if isinstance(crsp, ExceptionResponse) or crsp is None or not isinstance(crsp, ReadDeviceInformationResponse):
                if judged:
                    discs.append(Disc('not-a-normal-response', 'read_code %d object %d answered with %r' % (code, oid, crsp)))
                break
            n_here = 0
            for k, v in crsp.information.items():
                for item in (v if isinstance(v, list) else [v]):
                    got.append((k, bytes(item)))
                    n_here += 1
            if crsp.number_of_objects != n_here:
                labels.append('object-count-field-differs')      # the count field is C01's business (spec layout), not C20's
            if crsp.more_follows == 0xFF:
                oid = crsp.next_object_id
                continue
            break
        labels.append('pages:%d' % min(pages, 4))
        if judged and not discs:
            if sorted(got) != expected:
                missing = [k for k in expected if k not in got]
                extra = [k for k in got if k not in expected]
                dup = sorted(set(k for k in got if got.count(k) > 1))
                discs.append(Disc('objects', 'read_code %d start %d over %d pages: missing %r, unexpected %r, duplicated %r' % (
                    code, start, pages, [(k, len(v)) for k, v in missing][:6], [(k, len(v)) for k, v in extra][:6], [(k, len(v)) for k, v in dup][:6])))
    except Exception as e:
        discs.append(Disc('raises', 'read_code %d start %d: %s: %s' % (code, start, type(e).__name__, e)))
    finally:
        pm.reset_globals()
    nt = pages >= 2 or (code == 3 and any(o[0] >= 0x80 and len(o[2]) for o in objs))
    return Outcome(discs, labels, nt)
