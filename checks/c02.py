"""C02 Encode/decode are mutual inverses and encoding is pure."""
import struct

from hypothesis import strategies as st

from vlib import gens, kinds
from vlib.engine import Disc, Outcome

PID = 'C02'
RULE = ('Hypothesis: a message (kind, in-range fields) of every registered class / diagnostic sub-class / exception, a '
        'second message of the same class, and a history of 0..6 operations on ONE object from {E: encode, D1/D2: decode '
        'the body of message 1/2 into it, DS: decode its own encoding}. Oracle (pymodbus against itself): (a) '
        'decoder.decode(fc+encode(m)) has the same concrete class and equal fields (bits up to byte padding); (b) encode '
        'twice gives identical bytes and leaves the fields unchanged; (c) encode(decode(encode(m))) == encode(m); (d) after '
        'every history step the object\'s fields equal those of the last decoded message (no accumulation) and every E '
        'yields the bytes a fresh object with those fields yields. Non-trivial: >=1 list element or a history with >=2 '
        'operations; distinct by SHA-1.')
ASSUMPTIONS = ['bit lists are compared up to zero padding to a byte boundary',
               'diagnostic message int/list/tuple forms are the same wire words']
BUDGET = {'quick': 8000, 'thorough': 30000}

OPS = ['E', 'D1', 'D2', 'DS']


@st.composite
def _case(draw):
    kind = draw(st.sampled_from(kinds.ALL_KINDS))
    f1 = draw(gens.fields(kind, spec_mode=False))
    f2 = draw(gens.fields(kind, spec_mode=False))
    if kind.endswith(':8'):
        f2 = dict(f2, sub=f1['sub']) if _diag_compatible(f1, f2) else f1
    if kind == 'exc':
        f2 = dict(f2, fc=f1['fc'])   # the function code is not part of the decoded body
    ops = draw(st.lists(st.sampled_from(OPS), min_size=0, max_size=6))
    return {'kind': kind, 'f1': f1, 'f2': f2, 'ops': ops}


def _diag_compatible(f1, f2):
    # same concrete class means same sub-function; keep data shape legal for that sub-function
    return f1['sub'] == f2['sub']


def strategy(tier):
    return _case()


def sweeps(tier):
    """Large messages of every variable-length kind under repeated encodes / decodes (state that only
    overflows or accumulates with size is invisible on small messages)."""
    big = [('rsp:3', {'registers': [(i * 7 + 1) & 0xFFFF for i in range(125)]}),
           ('rsp:1', {'bits': [bool(i % 3) for i in range(2000)]}),
           ('req:16', {'address': 1, 'registers': [(i * 5 + 2) & 0xFFFF for i in range(123)]}),
           ('req:15', {'address': 1, 'bits': [bool(i % 2) for i in range(1968)]}),
           ('req:23', {'read_address': 1, 'read_quantity': 125, 'write_address': 2, 'registers': [(i + 3) & 0xFFFF for i in range(121)]}),
           ('rsp:23', {'registers': [(i * 3) & 0xFFFF for i in range(125)]}),
           ('rsp:12', {'status_word': 0, 'event_count': 1, 'message_count': 2, 'events': [i & 0x7F for i in range(64)]}),
           ('rsp:17', {'identifier': ('ab' * 120), 'run': True}),
           ('req:20', {'records': [{'file': i, 'record': i + 1, 'length': 2} for i in range(35)]}),
           ('req:21', {'records': [{'file': 1, 'record': 2, 'data': '0102' * 50}, {'file': 3, 'record': 4, 'data': 'a1b2' * 40}]}),
           ('rsp:21', {'records': [{'file': 1, 'record': 2, 'data': '0102' * 100}]}),
           ('req:8', {'sub': 0, 'data': [(i * 9) & 0xFFFF for i in range(60)]}),
           ('rsp:8', {'sub': 21, 'data': [3] + [(i * 9) & 0xFFFF for i in range(54)]})]
    # object areas up to the exact fit: 246 bytes of objects make a 253-byte PDU
    for total, piece in [(t, 60) for t in (60, 123, 124, 200, 240, 241, 242, 243, 244, 245, 246)] + [(t, 244) for t in (244, 245, 246)] + [(246, 121), (246, 80)]:
        objs, left, oid = [], total, 0
        while left > 2:
            n = min(left - 2, piece)
            objs.append([oid if oid < 7 else 0x80 + oid, ('%02x' % (0x41 + oid)) * n])
            left -= n + 2
            oid += 1
        big.append(('rsp:43', {'read_code': 3, 'conformity': 0x83, 'more': 0, 'next_id': 0, 'objects': objs}))
    cases = []
    for kind, f in big:
        small = dict(f)
        for k, v in small.items():
            if isinstance(v, list):
                small[k] = v[:2]
        for ops in (['E', 'E', 'E', 'E', 'E', 'E'], ['E', 'D2', 'E', 'D1', 'E', 'DS'], ['DS', 'DS', 'E', 'E', 'D2', 'E']):
            cases.append({'kind': kind, 'f1': f, 'f2': small, 'ops': ops})
    return [('largest-messages-under-repeated-encode-decode', cases, False)]


def _decoder(kind):
    from pymodbus.factory import ServerDecoder, ClientDecoder
    return ServerDecoder() if kind.startswith('req') else ClientDecoder()


def _kf_encode_defect(kind, f, enc):
    """The two recorded encode defects, matched on the exact defective bytes."""
    if kind == 'rsp:24' and len(f['values']) >= 1:
        n = len(f['values'])
        if enc == bytes([24]) + struct.pack('>HH', 2 + 2 * n, 2 * n) + b''.join(struct.pack('>H', v) for v in f['values']):
            return 'KF-FIFO-COUNT'
    if kind == 'rsp:20' and len(f['records']) >= 1:
        datas = [bytes.fromhex(r['data']) for r in f['records']]
        bad = bytes([20, sum(len(d) + 2 for d in datas) & 0xFF]) + b''.join(bytes([6, len(d) // 2]) + d for d in datas)
        if enc == bad:
            return 'KF-FILE-RECORD-RESPONSE-LAYOUT'
    return None


def run_case(case):
    kind, f1, f2, ops = case['kind'], case['f1'], case['f2'], case['ops']
    labels = ['kind:' + kind, 'ops:%d' % len(ops)]
    if kind.endswith(':8'):
        labels.append('diag-sub:%d' % f1['sub'])
    discs = []
    nt = len(ops) >= 2 or any(isinstance(v, list) and v for v in f1.values())

    def fresh(f):
        return kinds.build(kind, f)

    def enc(o):
        return bytes([o.function_code]) + o.encode()

    # (b) purity of encode on a constructed object
    try:
        m = fresh(f1)
        b1 = enc(m)
        b1b = enc(m)
        kf = _kf_encode_defect(kind, f1, b1)
        if b1b != b1:
            discs.append(Disc('encode-not-idempotent', '%s: first %s second %s' % (kind, b1.hex()[:80], b1b.hex()[:80])))
        k_after, f_after = kinds.norm(m)
        if not kinds.fields_equal(f_after, f1):
            discs.append(Disc('encode-mutates', '%s: fields %r became %r' % (kind, f1, f_after)))
    except Exception as e:
        return Outcome([Disc('encode-raises', '%s %r: %s: %s' % (kind, f1, type(e).__name__, e))], labels, nt)

    # (a) + (c) round trip through the decoder
    try:
        m2 = _decoder(kind).decode(b1)
        if m2 is None:
            discs.append(Disc('roundtrip-none', '%s: decoder returned None for %s' % (kind, b1.hex()[:80]), kf))
        elif type(m2) is not type(m):
            discs.append(Disc('roundtrip-class', '%s: %s decoded as %s' % (kind, type(m).__name__, type(m2).__name__), kf))
        else:
            k2, g = kinds.norm(m2)
            if not kinds.fields_equal(g, f1):
                discs.append(Disc('roundtrip-fields', '%s: %r came back as %r' % (kind, f1, g), kf))
            else:
                b2 = enc(m2)
                if b2 != b1:
                    discs.append(Disc('reencode-differs', '%s: encode %s, encode(decode(.)) %s' % (kind, b1.hex()[:80], b2.hex()[:80]), kf))
                b2b = enc(m2)
                if b2b != b2:
                    discs.append(Disc('encode-not-idempotent', '%s (decoded object): first %s second %s' % (kind, b2.hex()[:80], b2b.hex()[:80])))
    except Exception as e:
        discs.append(Disc('roundtrip-raises', '%s: %s: %s' % (kind, type(e).__name__, e), kf))

    # (d) history on one object
    if kf is not None or _kf_encode_defect(kind, f2, enc(fresh(f2))) is not None:
        labels.append('history-skipped-known-encode-defect')
        return Outcome(discs, labels, nt)
    if discs:
        return Outcome(discs, labels, nt)
    x = fresh(f1)
    state = f1
    bodies = {'D1': b1[1:], 'D2': enc(fresh(f2))[1:]}
    fields_of = {'D1': f1, 'D2': f2}
    for i, op in enumerate(ops):
        try:
            prev = kinds.norm(x)[1]
            if op == 'E':
                got = enc(x)
                want = enc(fresh(state))
                if got != want:
                    discs.append(Disc('history-encode', '%s step %d %s: %s, fresh object gives %s' % (kind, i, ops[:i + 1], got.hex()[:80], want.hex()[:80])))
                    break
            else:
                if op == 'DS':
                    body = enc(x)[1:]
                    new = state
                else:
                    body = bodies[op]
                    new = fields_of[op]
                x.decode(body)
                state = new
            cur = kinds.norm(x)[1]
            if not kinds.fields_equal(cur, state):
                finding = None
                if kind == 'rsp:23' and op != 'E' and cur.get('registers') == list(prev.get('registers', [])) + list(state['registers']) \
                        and prev.get('registers'):
                    finding = 'KF-RWM-RESPONSE-DECODE-ACCUMULATES'
                discs.append(Disc('history-state', '%s step %d %s: fields are %r, expected %r' % (kind, i, ops[:i + 1], cur, state), finding))
                break
        except Exception as e:
            discs.append(Disc('history-raises', '%s step %d %s: %s: %s' % (kind, i, ops[:i + 1], type(e).__name__, e)))
            break
    return Outcome(discs, labels, nt)
