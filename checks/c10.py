"""C10 Requests act only on the addressed unit; broadcast acts on all."""
from hypothesis import strategies as st

from vlib import frontends, gens, kinds, model, pm, refframe, specpdu
from vlib.engine import Disc, Outcome
from checks import c04, c09

PID = 'C10'
RULE = ('Hypothesis: hosted unit set (1..5 ids out of 0..247, biased to contain 0, 1, 247) or single context x addressed unit '
        '0..255 per request x broadcast_enable x ignore_missing_slaves x front-end (7) x unit-carrying framing (tcp, rtu, '
        'ascii, binary) x history of 1..5 write/read requests (FC 1-6,15,16,22,23, mostly valid, some with a bad address). '
        'Slave contexts are a harness subclass of ModbusSlaveContext counting setValues calls. Oracle: one reference model '
        'per hosted unit: after the history every unit\'s four tables equal its model (only the addressed hosted unit '
        'changed, per the model; absent unit: nothing changed and the answer is absent or a gateway exception 0x0A/0x0B; '
        'broadcast on: a unit-0 write is applied to every hosted unit with exactly one setValues each and nothing is sent; '
        'broadcast off: unit 0 is an ordinary id; single mode: every unit id reaches the one context) and every response '
        'equals the model\'s. Exhaustive sweep: all 256 unit ids x hosted-set shapes x flags for one write. Non-trivial: '
        'multi mode with >=2 hosted units and a write request; distinct by SHA-1. Writes may cover a whole table of a unit; most multi-unit contexts do not host unit 0 (hosting it switches the unit filter off).')
ASSUMPTIONS = ['Twisted front-ends have no broadcast option: broadcast cases are not generated for them',
               'frames a framer drops because the unit filter rejects them count as "answered not at all"',
               'binary histories containing delimiter bytes are excluded and counted']
BUDGET = {'quick': 4000, 'thorough': 8000}

LAY = c09.SMALL_LAYOUT


def _layout(n):
    return {'zero_mode': True, 'share': None,
            'tables': dict((k, {'shape': 'seq', 'start': 0, 'values': [False if k in 'cd' else 0] * n}) for k in 'cdhi')}


@st.composite
def _req(draw):
    if draw(st.integers(0, 7)) == 0:
        # a write that covers a whole table of some unit (tables have 6, 21, 39 or 40 cells)
        n = draw(st.sampled_from([6, 6, 21, 39, 40]))
        if draw(st.booleans()):
            return ['req:16', {'address': 0, 'registers': [draw(st.integers(1, 0xFFFF))] * n}]
        return ['req:15', {'address': 0, 'bits': [True] * n}]
    fc = draw(st.sampled_from([5, 6, 15, 16, 22, 23, 6, 16, 1, 3]))
    a = draw(st.sampled_from([0, 1, 5, 20, 38, 39, 40, 100]))
    if fc in (1, 3):
        f = {'address': a, 'quantity': draw(st.sampled_from([1, 2, 5]))}
    elif fc == 5:
        f = {'address': a, 'value': draw(st.sampled_from([0xFF00, 0xFF00, 0]))}
    elif fc == 6:
        f = {'address': a, 'value': draw(st.integers(1, 0xFFFF))}
    elif fc == 15:
        f = {'address': a, 'bits': draw(st.lists(st.booleans(), min_size=1, max_size=6))}
    elif fc == 16:
        f = {'address': a, 'registers': draw(st.lists(st.integers(1, 0xFFFF), min_size=1, max_size=3))}
    elif fc == 22:
        f = {'address': a, 'and_mask': draw(st.integers(0, 0xFFFF)), 'or_mask': draw(st.integers(0, 0xFFFF))}
    else:
        f = {'read_address': draw(st.sampled_from([0, 3, 38])), 'read_quantity': 2, 'write_address': a,
             'registers': draw(st.lists(st.integers(1, 0xFFFF), min_size=1, max_size=2))}
    return ['req:%d' % fc, f]


@st.composite
def _case(draw):
    fe = draw(st.sampled_from(frontends.ALL))
    framing = draw(st.sampled_from(['tcp', 'rtu', 'ascii', 'binary']))
    single = draw(st.sampled_from([False, False, True]))
    # hosting unit 0 switches the framers' unit filter off: most multi-unit contexts are drawn without it
    lowest = draw(st.sampled_from([1, 1, 0]))
    hosted = sorted(draw(st.lists(st.one_of(st.sampled_from([lowest, 1, 2, 247]), st.integers(lowest, 247)), min_size=1, max_size=5, unique=True))) if not single else [0]
    bcast = draw(st.booleans()) if frontends.HAS_BROADCAST[fe] else False
    steps = []
    for i in range(draw(st.integers(1, 5))):
        uid = draw(st.one_of(st.sampled_from(hosted), st.sampled_from([0, 0, 1, 2, 246, 247, 248, 255]), st.integers(0, 255)))
        k, f = draw(_req())
        steps.append({'uid': uid, 'kind': k, 'fields': f})
    return {'frontend': fe, 'framing': framing, 'single': single, 'hosted': hosted,
            'ignore_missing_slaves': draw(st.booleans()), 'broadcast_enable': bcast, 'steps': steps,
            # units may have tables of different sizes: a broadcast can be legal for one unit and not for another
            'sizes': [draw(st.sampled_from([40, 40, 21, 6, 39])) for _ in hosted],
            # stream front-ends: the request stream may arrive cut at arbitrary byte positions
            'cuts': draw(st.one_of(st.none(), st.none(), gens.cuts())) if fe in frontends.STREAM else None,
            # some units leave their tables to the library default (ModbusSlaveContext() builds them itself)
            'default_tables': draw(st.sampled_from([False, False, False, True]))}


def strategy(tier):
    return _case()


def sweeps(tier):
    cases = []
    shapes = [[1], [0], [0, 1], [1, 2, 3], [247], [0, 247], [1, 247], [5, 6]]
    fes = frontends.ALL
    for fe in fes:
        for hosted in (shapes if tier == 'thorough' else shapes[:5]):
            for bc in ((False, True) if frontends.HAS_BROADCAST[fe] else (False,)):
                for ign in (False, True):
                    for uid in (range(256) if tier == 'thorough' else (0, 1, 2, 3, 5, 6, 7, 246, 247, 248, 254, 255)):
                        cases.append({'frontend': fe, 'framing': 'tcp' if fe != 'sync_serial' else 'rtu', 'single': False, 'hosted': hosted,
                                      'ignore_missing_slaves': ign, 'broadcast_enable': bc,
                                      'steps': [{'uid': uid, 'kind': 'req:6', 'fields': {'address': 3, 'value': 0x1234}}]})
    out = [('unit-ids-x-hosted-shapes-x-flags (all 256 ids in thorough)', cases, tier == 'thorough')]
    # a broadcast write that covers a whole table, followed by unicast writes: the units must stay independent of each other
    more = []
    for fe in frontends.ALL:
        if not frontends.HAS_BROADCAST[fe]:
            continue
        for n in (6, 21, 40):
            for kind, whole, single_w in (('req:16', {'address': 0, 'registers': [7] * n}, ('req:6', {'address': 0, 'value': 9})),
                                          ('req:15', {'address': 0, 'bits': [True] * n}, ('req:5', {'address': 1, 'value': 0}))):
                more.append({'frontend': fe, 'framing': 'tcp' if fe != 'sync_serial' else 'rtu', 'single': False, 'hosted': [1, 2, 3],
                             'ignore_missing_slaves': False, 'broadcast_enable': True, 'sizes': [n, n, n],
                             'steps': [{'uid': 0, 'kind': kind, 'fields': whole}, {'uid': 2, 'kind': single_w[0], 'fields': single_w[1]},
                                       {'uid': 0, 'kind': single_w[0], 'fields': dict(single_w[1], address=2)},
                                       {'uid': 3, 'kind': single_w[0], 'fields': dict(single_w[1], address=3)}]})
    out.append(('whole-table-broadcast-then-unicast-writes', more, False))
    return out


def _fingerprint(m):
    """state of a unit model (defaulted tables: only the cells that differ from the default)"""
    out = {}
    for k, v in m.tab.items():
        if hasattr(v, 'w'):
            out[k] = dict((a, x) for a, x in v.w.items() if x not in (0, False))
        else:
            out[k] = dict(v)
    return out


def run_case(case):
    from pymodbus.datastore.context import ModbusSlaveContext
    pm.reset_globals()
    fe, framing = case['frontend'], case['framing']
    single, hosted, ignore, bcast = case['single'], case['hosted'], case['ignore_missing_slaves'], case['broadcast_enable']
    labels = ['frontend:' + fe, 'framing:' + framing, 'single:%s' % single, 'bcast:%s' % bcast, 'ignore:%s' % ignore]

    class Counting(ModbusSlaveContext):
        def __init__(self, *a, **k):
            ModbusSlaveContext.__init__(self, *a, **k)
            self.set_calls = 0

        def setValues(self, *a, **k):
            self.set_calls += 1
            return ModbusSlaveContext.setValues(self, *a, **k)

    units = [0] if single else list(hosted)
    sizes = case.get('sizes') or [40] * len(units)
    lays = dict((u, _layout(sizes[i % len(sizes)])) for i, u in enumerate(units))
    window = None
    if case.get('default_tables'):
        labels.append('default-tables')
        window = set(range(0, 140))
        for i, u in enumerate(units):
            if i % 2 == 0 or len(units) <= 2:
                lays[u] = {'zero_mode': True, 'share': None, 'tables': dict((k, {'shape': 'default'}) for k in 'cdhi')}
    from pymodbus.datastore import ModbusServerContext
    if single:
        ctx = ModbusServerContext(slaves=model.make_slave(lays[0], Counting), single=True)
    else:
        ctx = ModbusServerContext(slaves=dict((u, model.make_slave(lays[u], Counting)) for u in units), single=False)
    models = dict((u, model.SlaveModel(lays[u])) for u in units)
    if len(set(sizes[:len(units)])) > 1:
        labels.append('units-differ-in-size')
    exp_sets = dict((u, 0) for u in units)
    exp_changes = dict((u, 0) for u in units)      # writes that change the unit's state (a write of the value already there may be skipped)
    frames = []
    expect = []      # per step: list of acceptable response PDUs (bytes) or None for silence; 'gw' marks optional gateway
    wrote_multi = False
    only_broadcast_writes = True
    for i, s in enumerate(case['steps']):
        pdu = specpdu.encode(s['kind'], s['fields'])
        uid = s['uid']
        frames.append(refframe.build(framing, uid, pdu, i + 1, 0))
        areq = model.abstract_request(pdu)
        is_write = pdu[0] in (5, 6, 15, 16, 22, 23)
        if is_write and not (bcast and uid == 0):
            only_broadcast_writes = False
        if bcast and uid == 0:
            targets, respond = units, False
            labels.append('broadcast')
        elif single:
            targets, respond = [0], True
        elif uid in hosted:
            targets, respond = [uid], True
        else:
            targets, respond = [], 'absent'
            labels.append('absent-unit')
        if is_write and len(units) >= 2 and targets:
            wrote_multi = True
        want = None
        for u in targets:
            outcomes, primary = models[u].classify(areq)
            if primary == 'normal':
                before_ = _fingerprint(models[u]) if is_write else None
                k, f = models[u].apply(areq)
                if is_write:
                    exp_sets[u] += 1
                    if _fingerprint(models[u]) != before_:
                        exp_changes[u] += 1
                want = (k, f)
            else:
                want = ('exc', {'fc': pdu[0], 'code': primary})
        if respond is True:
            expect.append(('one', uid, i + 1, want))
        elif respond == 'absent':
            expect.append(('none' if ignore else 'gw', uid, i + 1, pdu[0]))
        else:
            expect.append(('none', uid, i + 1, None))
    if framing == 'binary' and any(refframe.binary_fragile(fr) for fr in frames):
        return Outcome([], labels + ['excluded-binary-delimiter'], False)
    script = [(0, fr) for fr in frames]
    if case.get('cuts') and fe in frontends.STREAM:
        script = [(0, c) for c in gens.apply_cuts(b''.join(frames), case['cuts']) if c]
        labels.append('byte-level-cuts')
    res = frontends.run(fe, framing, ctx, script, ignore_missing_slaves=ignore, broadcast_enable=bcast)
    discs = []
    for c, e in res.escaped:
        discs.append(Disc('escaped', '%s/%s: %s' % (fe, framing, e)))
    # ---- datastore: every unit equals its model
    for u in units:
        slave = ctx[u]
        real_d = model.norm_dump(model.dump_slave(slave, window))
        model_d = model.norm_dump(model.dump_model(models[u], window))
        if real_d != model_d:
            discs.append(Disc('unit-state', '%s/%s hosted %r bcast=%s: unit %d tables differ from the model: %s' % (
                fe, framing, hosted if not single else 'single', bcast, u, c04._diff(real_d, model_d)), _kf(case)))
            break
        # "exactly once" is stated for broadcast writes; for unicast writes only "at least the model's writes" is required
        if (slave.set_calls > exp_sets[u] or slave.set_calls < exp_changes[u]) if only_broadcast_writes else (slave.set_calls < exp_changes[u]):
            discs.append(Disc('set-count', '%s/%s: unit %d saw %d setValues calls, model expects %d' % (fe, framing, u, slave.set_calls, exp_sets[u]), _kf(case)))
            break
    # ---- responses
    sent = res.sent.get(0, [])
    try:
        parsed = [p for s in sent for p in refframe.parse_many(framing, s)]
    except refframe.FrameError as e:
        parsed = None
        discs.append(Disc('not-a-frame', '%s/%s: %s' % (fe, framing, e)))
    if parsed is not None and not discs:
        j = 0
        for mode, uid, tid, want in expect:
            nxt = parsed[j] if j < len(parsed) else None
            if mode == 'one':
                ok = nxt is not None and nxt['uid'] == uid and (framing != 'tcp' or nxt['tid'] == tid)
                if ok:
                    try:
                        gk, gf = specpdu.decode('rsp', nxt['pdu'])
                        ok = gk == want[0] and kinds.fields_equal(c04._trim(gf, want[1]), want[1])
                    except specpdu.SpecError:
                        ok = False
                if not ok:
                    discs.append(Disc('response', '%s/%s: request to unit %d (tid %d): expected %r, next frame %s' % (
                        fe, framing, uid, tid, want, None if nxt is None else (nxt['uid'], nxt['tid'], nxt['pdu'].hex()[:30]))))
                    break
                j += 1
            elif mode == 'gw':
                if nxt is not None and nxt['uid'] == uid and len(nxt['pdu']) == 2 and nxt['pdu'][0] == (want | 0x80) and nxt['pdu'][1] in (0x0A, 0x0B):
                    j += 1
        else:
            if j < len(parsed):
                p = parsed[j]
                discs.append(Disc('unexpected-response', '%s/%s hosted %r bcast=%s: frame that answers no request: %s' % (
                    fe, framing, hosted, bcast, (p['uid'], p['tid'], p['pdu'].hex()[:30]))))
    pm.reset_globals()
    return Outcome(discs, labels, wrote_multi)


def _kf(case):
    return None
