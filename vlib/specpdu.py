"""Independent reference codec for Modbus PDUs, written from the tables of the
MODBUS Application Protocol Specification v1.1b3 (NOT from pymodbus).

A message is (kind, fields):  kind = 'req:<fc>' | 'rsp:<fc>' | 'exc'
(for diagnostics 'req:8'/'rsp:8' with field 'sub'; for MEI 'req:43'/'rsp:43').

fields are plain JSON values: ints, lists of ints / bools, hex strings for opaque bytes.

encode(kind, fields) -> bytes (full PDU including function code)
decode(direction, pdu) -> (kind, fields)   raises SpecError on a PDU that is not well-formed

`overrides` keys (prefix '_') let callers emit deliberately inconsistent PDUs
(_quantity, _byte_count, _truncate, _extend) for C05/C12.
"""
import struct


class SpecError(Exception):
    pass


def pack_bits(bits):
    out = bytearray((len(bits) + 7) // 8)
    for i, b in enumerate(bits):
        if b:
            out[i >> 3] |= 1 << (i & 7)
    return bytes(out)


def unpack_bits(data, n=None):
    bits = []
    for byte in data:
        for j in range(8):
            bits.append(bool((byte >> j) & 1))
    return bits if n is None else bits[:n]


def _h(*vals):
    return b''.join(struct.pack('>H', v) for v in vals)


def _regs(vals):
    return b''.join(struct.pack('>H', v) for v in vals)


def encode(kind, f):
    if kind == 'exc':
        return bytes([f['fc'] | 0x80, f['code']])
    direction, fc = kind.split(':')
    fc = int(fc)
    body = _ENC[(direction, fc)](f)
    pdu = bytes([fc]) + body
    if '_truncate' in f:
        pdu = pdu[:max(1, len(pdu) - f['_truncate'])]
    if '_extend' in f:
        pdu = pdu + bytes.fromhex(f['_extend'])
    return pdu


def _enc_read_req(f):
    return _h(f['address'], f['quantity'])


def _enc_bits_rsp(f):
    data = pack_bits(f['bits'])
    return bytes([f.get('_byte_count', len(data))]) + data


def _enc_regs_rsp(f):
    return bytes([f.get('_byte_count', 2 * len(f['registers']))]) + _regs(f['registers'])


def _enc_addr_val(f):
    return _h(f['address'], f['value'])


def _enc_addr_qty(f):
    return _h(f['address'], f['quantity'])


def _enc_none(f):
    return b''


def _enc_diag(f):
    return _h(f['sub']) + _regs(f['data'])


def _enc_wcoils_req(f):
    data = pack_bits(f['bits'])
    if '_data' in f:
        data = bytes.fromhex(f['_data'])
    return _h(f['address'], f.get('_quantity', len(f['bits']))) + bytes([f.get('_byte_count', (len(f['bits']) + 7) // 8)]) + data


def _enc_wregs_req(f):
    data = _regs(f['registers'])
    if '_data' in f:
        data = bytes.fromhex(f['_data'])
    return _h(f['address'], f.get('_quantity', len(f['registers']))) + bytes([f.get('_byte_count', 2 * len(f['registers']))]) + data


def _enc_rfile_req(f):
    out = bytes([7 * len(f['records'])])
    for r in f['records']:
        out += bytes([6]) + _h(r['file'], r['record'], r['length'])
    return out


def _enc_rfile_rsp(f):
    subs = b''
    for r in f['records']:
        data = bytes.fromhex(r['data'])
        subs += bytes([len(data) + 1, 6]) + data
    return bytes([len(subs)]) + subs


def _enc_wfile(f):
    subs = b''
    for r in f['records']:
        data = bytes.fromhex(r['data'])
        subs += bytes([6]) + _h(r['file'], r['record'], len(data) // 2) + data
    return bytes([len(subs)]) + subs


def _enc_mask(f):
    return _h(f['address'], f['and_mask'], f['or_mask'])


def _enc_rw_req(f):
    data = _regs(f['registers'])
    if '_data' in f:
        data = bytes.fromhex(f['_data'])
    return (_h(f['read_address'], f['read_quantity'], f['write_address'],
               f.get('_quantity', len(f['registers'])))
            + bytes([f.get('_byte_count', 2 * len(f['registers']))]) + data)


def _enc_fifo_req(f):
    return _h(f['address'])


def _enc_fifo_rsp(f):
    n = len(f['values'])
    return _h(2 + 2 * n, n) + _regs(f['values'])


def _enc_mei_req(f):
    return bytes([0x0E, f['read_code'], f['object_id']])


def _enc_mei_rsp(f):
    out = bytes([0x0E, f['read_code'], f['conformity'], f['more'], f['next_id'], len(f['objects'])])
    for oid, val in f['objects']:
        v = bytes.fromhex(val)
        out += bytes([oid, len(v)]) + v
    return out


def _enc_exc_status_rsp(f):
    return bytes([f['status']])


def _enc_evcnt_rsp(f):
    return _h(f['status_word'], f['event_count'])


def _enc_evlog_rsp(f):
    ev = bytes(f['events'])
    return bytes([6 + len(ev)]) + _h(f['status_word'], f['event_count'], f['message_count']) + ev


def _enc_slaveid_rsp(f):
    ident = bytes.fromhex(f['identifier'])
    return bytes([len(ident) + 1]) + ident + bytes([0xFF if f['run'] else 0x00])


_ENC = {}
for _fc in (1, 2, 3, 4):
    _ENC[('req', _fc)] = _enc_read_req
for _fc in (1, 2):
    _ENC[('rsp', _fc)] = _enc_bits_rsp
for _fc in (3, 4, 23):
    _ENC[('rsp', _fc)] = _enc_regs_rsp
for _fc in (5, 6):
    _ENC[('req', _fc)] = _enc_addr_val
    _ENC[('rsp', _fc)] = _enc_addr_val
for _fc in (7, 11, 12, 17):
    _ENC[('req', _fc)] = _enc_none
_ENC[('req', 8)] = _enc_diag
_ENC[('rsp', 8)] = _enc_diag
_ENC[('req', 15)] = _enc_wcoils_req
_ENC[('req', 16)] = _enc_wregs_req
_ENC[('rsp', 15)] = _enc_addr_qty
_ENC[('rsp', 16)] = _enc_addr_qty
_ENC[('req', 20)] = _enc_rfile_req
_ENC[('rsp', 20)] = _enc_rfile_rsp
_ENC[('req', 21)] = _enc_wfile
_ENC[('rsp', 21)] = _enc_wfile
_ENC[('req', 22)] = _enc_mask
_ENC[('rsp', 22)] = _enc_mask
_ENC[('req', 23)] = _enc_rw_req
_ENC[('req', 24)] = _enc_fifo_req
_ENC[('rsp', 24)] = _enc_fifo_rsp
_ENC[('req', 43)] = _enc_mei_req
_ENC[('rsp', 43)] = _enc_mei_rsp
_ENC[('rsp', 7)] = _enc_exc_status_rsp
_ENC[('rsp', 11)] = _enc_evcnt_rsp
_ENC[('rsp', 12)] = _enc_evlog_rsp
_ENC[('rsp', 17)] = _enc_slaveid_rsp

SUPPORTED_FCS = sorted(set(fc for (_d, fc) in _ENC))


# --------------------------------------------------------------------------- decode
def _need(b, n, exact=True):
    if (len(b) != n) if exact else (len(b) < n):
        raise SpecError('length %d, expected %s%d' % (len(b), '' if exact else '>=', n))


def decode(direction, pdu):
    if len(pdu) < 1:
        raise SpecError('empty pdu')
    fc = pdu[0]
    b = pdu[1:]
    if fc & 0x80:
        if direction != 'rsp':
            raise SpecError('exception in request direction')
        _need(b, 1)
        return 'exc', {'fc': fc & 0x7F, 'code': b[0]}
    key = (direction, fc)
    if key not in _DEC:
        raise SpecError('unsupported function %d' % fc)
    return '%s:%d' % key, _DEC[key](b)


def _dec_read_req(b):
    _need(b, 4)
    a, q = struct.unpack('>HH', b)
    return {'address': a, 'quantity': q}


def _dec_bits_rsp(b):
    _need(b, 1, False)
    _need(b, 1 + b[0])
    return {'bits': unpack_bits(b[1:])}


def _dec_regs_rsp(b):
    _need(b, 1, False)
    _need(b, 1 + b[0])
    if b[0] % 2:
        raise SpecError('odd register byte count')
    return {'registers': list(struct.unpack('>%dH' % (b[0] // 2), b[1:]))}


def _dec_addr_val(b):
    _need(b, 4)
    a, v = struct.unpack('>HH', b)
    return {'address': a, 'value': v}


def _dec_addr_qty(b):
    _need(b, 4)
    a, v = struct.unpack('>HH', b)
    return {'address': a, 'quantity': v}


def _dec_none(b):
    _need(b, 0)
    return {}


def _dec_diag(b):
    _need(b, 2, False)
    if len(b) % 2:
        raise SpecError('odd diagnostic data')
    w = struct.unpack('>%dH' % (len(b) // 2), b)
    return {'sub': w[0], 'data': list(w[1:])}


def _dec_wcoils_req(b):
    _need(b, 5, False)
    a, q, bc = struct.unpack('>HHB', b[:5])
    _need(b, 5 + bc)
    if bc != (q + 7) // 8:
        raise SpecError('byte count/quantity mismatch')
    return {'address': a, 'bits': unpack_bits(b[5:], q)}


def _dec_wregs_req(b):
    _need(b, 5, False)
    a, q, bc = struct.unpack('>HHB', b[:5])
    _need(b, 5 + bc)
    if bc != 2 * q:
        raise SpecError('byte count/quantity mismatch')
    return {'address': a, 'registers': list(struct.unpack('>%dH' % q, b[5:]))}


def _dec_mask(b):
    _need(b, 6)
    a, x, y = struct.unpack('>HHH', b)
    return {'address': a, 'and_mask': x, 'or_mask': y}


def _dec_rw_req(b):
    _need(b, 9, False)
    ra, rq, wa, wq, bc = struct.unpack('>HHHHB', b[:9])
    _need(b, 9 + bc)
    if bc != 2 * wq:
        raise SpecError('byte count/quantity mismatch')
    return {'read_address': ra, 'read_quantity': rq, 'write_address': wa,
            'registers': list(struct.unpack('>%dH' % wq, b[9:]))}


def _dec_fifo_req(b):
    _need(b, 2)
    return {'address': struct.unpack('>H', b)[0]}


def _dec_fifo_rsp(b):
    _need(b, 4, False)
    bc, n = struct.unpack('>HH', b[:4])
    if bc != 2 + 2 * n:
        raise SpecError('fifo counts')
    _need(b, 4 + 2 * n)
    return {'values': list(struct.unpack('>%dH' % n, b[4:]))}


def _dec_mei_req(b):
    _need(b, 3)
    if b[0] != 0x0E:
        raise SpecError('mei type')
    return {'read_code': b[1], 'object_id': b[2]}


def _dec_mei_rsp(b):
    _need(b, 6, False)
    if b[0] != 0x0E:
        raise SpecError('mei type')
    objs = []
    i = 6
    for _ in range(b[5]):
        _need(b[i:], 2, False)
        oid, ln = b[i], b[i + 1]
        _need(b[i + 2:], ln, False)
        objs.append([oid, b[i + 2:i + 2 + ln].hex()])
        i += 2 + ln
    if i != len(b):
        raise SpecError('trailing bytes after objects')
    return {'read_code': b[1], 'conformity': b[2], 'more': b[3], 'next_id': b[4], 'objects': objs}


def _dec_rfile_req(b):
    _need(b, 1, False)
    _need(b, 1 + b[0])
    if b[0] % 7:
        raise SpecError('byte count not multiple of 7')
    recs = []
    for i in range(1, len(b), 7):
        ref, fl, rec, ln = struct.unpack('>BHHH', b[i:i + 7])
        if ref != 6:
            raise SpecError('reference type')
        recs.append({'file': fl, 'record': rec, 'length': ln})
    return {'records': recs}


def _dec_rfile_rsp(b):
    _need(b, 1, False)
    _need(b, 1 + b[0])
    recs = []
    i = 1
    while i < len(b):
        _need(b[i:], 2, False)
        ln, ref = b[i], b[i + 1]
        if ref != 6 or ln < 1:
            raise SpecError('sub-response')
        _need(b[i + 1:], ln, False)
        recs.append({'data': b[i + 2:i + 1 + ln].hex()})
        i += 1 + ln
    return {'records': recs}


def _dec_wfile(b):
    _need(b, 1, False)
    _need(b, 1 + b[0])
    recs = []
    i = 1
    while i < len(b):
        _need(b[i:], 7, False)
        ref, fl, rec, ln = struct.unpack('>BHHH', b[i:i + 7])
        if ref != 6:
            raise SpecError('reference type')
        _need(b[i + 7:], 2 * ln, False)
        recs.append({'file': fl, 'record': rec, 'data': b[i + 7:i + 7 + 2 * ln].hex()})
        i += 7 + 2 * ln
    return {'records': recs}


def _dec_exc_status_rsp(b):
    _need(b, 1)
    return {'status': b[0]}


def _dec_evcnt_rsp(b):
    _need(b, 4)
    s, c = struct.unpack('>HH', b)
    return {'status_word': s, 'event_count': c}


def _dec_evlog_rsp(b):
    _need(b, 7, False)
    _need(b, 1 + b[0])
    s, e, m = struct.unpack('>HHH', b[1:7])
    return {'status_word': s, 'event_count': e, 'message_count': m, 'events': list(b[7:])}


def _dec_slaveid_rsp(b):
    _need(b, 2, False)
    _need(b, 1 + b[0])
    return {'identifier': b[1:-1].hex(), 'run': b[-1] == 0xFF}


_DEC = {}
for _fc in (1, 2, 3, 4):
    _DEC[('req', _fc)] = _dec_read_req
for _fc in (1, 2):
    _DEC[('rsp', _fc)] = _dec_bits_rsp
for _fc in (3, 4, 23):
    _DEC[('rsp', _fc)] = _dec_regs_rsp
for _fc in (5, 6):
    _DEC[('req', _fc)] = _dec_addr_val
    _DEC[('rsp', _fc)] = _dec_addr_val
for _fc in (7, 11, 12, 17):
    _DEC[('req', _fc)] = _dec_none
_DEC[('req', 8)] = _dec_diag
_DEC[('rsp', 8)] = _dec_diag
_DEC[('req', 15)] = _dec_wcoils_req
_DEC[('req', 16)] = _dec_wregs_req
_DEC[('rsp', 15)] = _dec_addr_qty
_DEC[('rsp', 16)] = _dec_addr_qty
_DEC[('req', 20)] = _dec_rfile_req
_DEC[('rsp', 20)] = _dec_rfile_rsp
_DEC[('req', 21)] = _dec_wfile
_DEC[('rsp', 21)] = _dec_wfile
_DEC[('req', 22)] = _dec_mask
_DEC[('rsp', 22)] = _dec_mask
_DEC[('req', 23)] = _dec_rw_req
_DEC[('req', 24)] = _dec_fifo_req
_DEC[('rsp', 24)] = _dec_fifo_rsp
_DEC[('req', 43)] = _dec_mei_req
_DEC[('rsp', 43)] = _dec_mei_rsp
_DEC[('rsp', 7)] = _dec_exc_status_rsp
_DEC[('rsp', 11)] = _dec_evcnt_rsp
_DEC[('rsp', 12)] = _dec_evlog_rsp
_DEC[('rsp', 17)] = _dec_slaveid_rsp


# ------------------------------------------------------------------ start-up self check
# Worked examples printed in the specification (section 6.x), one per function.
_B = [True, False]
_EXAMPLES = [
    ('req:1', {'address': 0x13, 'quantity': 0x13}, '0100130013'),
    ('rsp:1', {'bits': unpack_bits(bytes.fromhex('CD6B05'))}, '0103CD6B05'),
    ('req:2', {'address': 0xC4, 'quantity': 0x16}, '0200C40016'),
    ('rsp:2', {'bits': unpack_bits(bytes.fromhex('ACDB35'))}, '0203ACDB35'),
    ('req:3', {'address': 0x6B, 'quantity': 3}, '03006B0003'),
    ('rsp:3', {'registers': [0x022B, 0, 0x64]}, '0306022B00000064'),
    ('req:4', {'address': 8, 'quantity': 1}, '0400080001'),
    ('rsp:4', {'registers': [0x0A]}, '0402000A'),
    ('req:5', {'address': 0xAC, 'value': 0xFF00}, '0500ACFF00'),
    ('rsp:5', {'address': 0xAC, 'value': 0xFF00}, '0500ACFF00'),
    ('req:6', {'address': 1, 'value': 3}, '0600010003'),
    ('rsp:7', {'status': 0x6D}, '076D'),
    ('req:8', {'sub': 0, 'data': [0xA537]}, '080000A537'),
    ('rsp:11', {'status_word': 0xFFFF, 'event_count': 0x0108}, '0BFFFF0108'),
    ('rsp:12', {'status_word': 0, 'event_count': 0x0108, 'message_count': 0x0121, 'events': [0x20, 0x00]},
     '0C08000001080121' + '2000'),
    ('req:15', {'address': 0x13, 'bits': unpack_bits(bytes.fromhex('CD01'), 10)}, '0F0013000A02CD01'),
    ('rsp:15', {'address': 0x13, 'quantity': 10}, '0F0013000A'),
    ('req:16', {'address': 1, 'registers': [0x0A, 0x0102]}, '100001000204000A0102'),
    ('rsp:16', {'address': 1, 'quantity': 2}, '1000010002'),
    ('req:20', {'records': [{'file': 4, 'record': 1, 'length': 2}, {'file': 3, 'record': 9, 'length': 2}]},
     '140E0600040001000206000300090002'),
    ('rsp:20', {'records': [{'data': '0dfe0020'}, {'data': '33cd0040'}]}, '140C05060DFE0020050633CD0040'),
    ('req:21', {'records': [{'file': 4, 'record': 7, 'data': '06af04be100d'}]}, '150D0600040007000306AF04BE100D'),
    ('req:22', {'address': 4, 'and_mask': 0xF2, 'or_mask': 0x25}, '16000400F20025'),
    ('req:23', {'read_address': 3, 'read_quantity': 6, 'write_address': 0x0E, 'registers': [0xFF, 0xFF, 0xFF]},
     '17000300060' + '00E00030600FF00FF00FF'),
    ('rsp:23', {'registers': [0xFE, 0x0ACD, 1, 3, 0x0D, 0xFF]}, '170C00FE0ACD00010003000D00FF'),
    ('req:24', {'address': 0x04DE}, '1804DE'),
    ('rsp:24', {'values': [0x01B8, 0x1284]}, '180006000201B81284'),
    ('req:43', {'read_code': 1, 'object_id': 0}, '2B0E0100'),
    ('rsp:43', {'read_code': 1, 'conformity': 1, 'more': 0, 'next_id': 0,
                'objects': [[0, b'Company identification'.hex()], [1, b'Product code XX'.hex()], [2, b'V2.11'.hex()]]},
     '2B0E0101000003' + '0016' + b'Company identification'.hex() + '010F' + b'Product code XX'.hex() + '0205' + b'V2.11'.hex()),
    ('exc', {'fc': 1, 'code': 2}, '8102'),
]


def self_check():
    for kind, f, hx in _EXAMPLES:
        want = bytes.fromhex(hx)
        got = encode(kind, f)
        if got != want:
            raise AssertionError('specpdu self-check encode %s: %s != %s' % (kind, got.hex(), want.hex()))
        direction = 'rsp' if kind == 'exc' else kind.split(':')[0]
        k2, f2 = decode(direction, want)
        if k2 != kind:
            raise AssertionError('specpdu self-check decode kind %s != %s' % (k2, kind))
        f1 = dict(f)
        if 'bits' in f1 and kind.startswith('rsp'):
            f1['bits'] = f1['bits'] + [False] * (-len(f1['bits']) % 8)
        if f2 != f1:
            raise AssertionError('specpdu self-check decode %s: %r != %r' % (kind, f2, f1))


self_check()
