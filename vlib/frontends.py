"""In-process drivers for the seven pymodbus server front-ends (DESIGN 3.5).

run(frontend, framing, context, script, **flags) -> Result

script = [(conn_index, bytes), ...] delivered in this order.  For stream front-ends a
conn_index is a connection; for datagram front-ends it is the peer address index.
Result.sent[conn]   list of byte strings, one per send/write/sendto call for that peer
Result.closed[conn] True when the server closed that connection (later chunks are dropped)
Result.escaped      [(conn, 'ExcType: text')] exceptions that escaped the serving code
Result.dropped      chunks not delivered because their connection was already closed
"""
import asyncio
import threading
import types

TIMEOUT = object()
STREAM = ['sync_tcp', 'sync_serial', 'aio_tcp', 'tw_tcp']
DATAGRAM = ['sync_udp', 'aio_udp', 'tw_udp']
ALL = STREAM + DATAGRAM
FAMILY = {'sync_tcp': 'sync', 'sync_serial': 'sync', 'sync_udp': 'sync', 'aio_tcp': 'aio', 'aio_udp': 'aio',
          'tw_tcp': 'tw', 'tw_udp': 'tw'}
HAS_BROADCAST = {'sync_tcp': True, 'sync_serial': True, 'sync_udp': True, 'aio_tcp': True, 'aio_udp': True,
                 'tw_tcp': False, 'tw_udp': False}


class Result(object):
    def __init__(self):
        self.sent = {}
        self.closed = {}
        self.escaped = []
        self.dropped = 0
        self.hung = False
        self.real_server = True

    def stream(self, conn):
        return b''.join(self.sent.get(conn, []))


class FakeServer(object):
    def __init__(self, ctx, framer, ignore_missing_slaves=False, broadcast_enable=False):
        from pymodbus.factory import ServerDecoder
        from pymodbus.device import ModbusControlBlock
        self.context = ctx
        self.framer = framer
        self.decoder = ServerDecoder()
        self.threads = []
        self.ignore_missing_slaves = ignore_missing_slaves
        self.broadcast_enable = broadcast_enable
        self.control = ModbusControlBlock()
        self.active_connections = {}


def make_server(frontend, ctx, framer, flags, loop=None):
    """The REAL server object of the front-end (so that its constructor's option wiring is exercised), built
    without opening any socket or port: the socketserver base constructor / serial connect are stubbed for the
    sync servers, the asyncio servers' un-awaited create_server coroutine is closed.  Falls back to a plain
    namespace (FakeServer) where the real class cannot be constructed on this interpreter."""
    try:
        if frontend in ('sync_tcp', 'sync_udp'):
            import socketserver
            import pymodbus.server.sync as ss
            base = socketserver.ThreadingTCPServer if frontend == 'sync_tcp' else socketserver.ThreadingUDPServer
            cls = ss.ModbusTcpServer if frontend == 'sync_tcp' else ss.ModbusUdpServer
            orig = base.__init__
            base.__init__ = lambda self, *a, **k: None
            try:
                srv = cls(ctx, framer, None, ('127.0.0.1', 0), **flags)
            finally:
                base.__init__ = orig
            srv.verif_real = True
            return srv
        if frontend == 'sync_serial':
            import pymodbus.server.sync as ss
            orig = ss.ModbusSerialServer._connect
            ss.ModbusSerialServer._connect = lambda self: False
            try:
                srv = ss.ModbusSerialServer(ctx, framer, None, port='/dev/null', **flags)
            finally:
                ss.ModbusSerialServer._connect = orig
            srv.verif_real = True
            return srv
        if frontend in ('aio_tcp', 'aio_udp'):
            import pymodbus.server.async_io as sa
            cls = sa.ModbusTcpServer if frontend == 'aio_tcp' else sa.ModbusUdpServer
            srv = cls(ctx, framer, None, ('127.0.0.1', 0), loop=loop, **flags)
            try:
                srv.server_factory.close()       # never awaited: no socket is ever created
            except Exception:
                pass
            if not hasattr(srv, 'active_connections'):
                srv.active_connections = {}
            srv.verif_real = True
            return srv
    except Exception:
        pass
    srv = FakeServer(ctx, framer, **flags)
    srv.verif_real = False
    return srv


def _conns(script):
    out = []
    for c, _d, _f in script:
        if c not in out:
            out.append(c)
    return out


# ------------------------------------------------------------------ sync (threaded) handlers
class _SyncConn(object):
    """Fake socket for a sync stream handler running in its own thread, driven in
    lock-step by the main thread (only one of the two ever runs)."""

    def __init__(self, serial):
        self.serial = serial
        self.sent = []
        self.inbox = None
        self.go = threading.Event()
        self.idle = threading.Event()
        self.finished = False
        self.handler = None
        self.error = None
        self.end = False

    # called in the handler thread
    def recv(self, n):
        self.idle.set()
        self.go.wait()
        self.go.clear()
        if self.end:
            if self.serial and self.handler is not None:
                self.handler.running = False
            return b''
        data, self.inbox = self.inbox, None
        if data is TIMEOUT:
            import socket
            raise socket.timeout('timed out')
        return data

    def send(self, data):
        self.sent.append(bytes(data))
        return len(data)

    def deliver(self, data):
        """main thread: hand one chunk over and wait until the handler asks for more or ends."""
        self.idle.clear()
        self.inbox = data
        self.go.set()
        return self._wait()

    def finish(self):
        self.idle.clear()
        self.end = True
        self.go.set()
        return self._wait()

    def _wait(self):
        if not self.idle.wait(300):
            return False
        return True


def _run_sync_stream(frontend, framing_cls, ctx, script, flags):
    import pymodbus.server.sync as ss
    res = Result()
    srv = make_server(frontend, ctx, framing_cls, flags)
    res.real_server = srv.verif_real
    conns = {}
    threads = {}

    def start(c):
        conn = _SyncConn(frontend == 'sync_serial')
        conns[c] = conn

        def body():
            try:
                if frontend == 'sync_serial':
                    h = ss.CustomSingleRequestHandler(conn, ('ser', 'ser'), srv)
                    conn.handler = h
                    try:
                        h.handle()
                    finally:
                        h.finish()
                else:
                    ss.ModbusConnectedRequestHandler(conn, ('127.0.0.1', 1000 + c), srv)
            except BaseException as e:
                conn.error = '%s: %s' % (type(e).__name__, e)
            conn.finished = True
            conn.idle.set()
        t = threading.Thread(target=body, daemon=True)
        threads[c] = t
        conn.idle.clear()
        t.start()
        if not conn.idle.wait(300):
            res.hung = True

    for c in _conns(script):
        res.sent[c] = []
        res.closed[c] = False
        start(c)
    for c, data, _flag in script:
        conn = conns[c]
        if conn.finished:
            res.dropped += 1
            continue
        if not conn.deliver(TIMEOUT if data is None else data):
            res.hung = True
            break
        if conn.finished:
            res.closed[c] = True
    for c, conn in conns.items():
        if not conn.finished and not res.hung:
            if not conn.finish():
                res.hung = True
        if conn.error:
            res.escaped.append((c, conn.error))
        res.sent[c] = conn.sent
        if not res.hung:
            threads[c].join(5)
    return res


def _run_sync_udp(framing_cls, ctx, script, flags):
    import pymodbus.server.sync as ss
    res = Result()
    srv = make_server('sync_udp', ctx, framing_cls, flags)
    res.real_server = srv.verif_real
    for c in _conns(script):
        res.sent[c] = []
        res.closed[c] = False

    class Sock(object):
        def sendto(self, data, addr):
            res.sent.setdefault(addr[1] - 1000, []).append(bytes(data))
            return len(data)
    for c, data, _flag in script:
        try:
            ss.ModbusDisconnectedRequestHandler((data, Sock()), ('127.0.0.1', 1000 + c), srv)
        except BaseException as e:
            res.escaped.append((c, '%s: %s' % (type(e).__name__, e)))
    return res


# ------------------------------------------------------------------ asyncio handlers
class _AioTransport(object):
    def __init__(self, res, c, peer):
        self.res, self.c, self.peer = res, c, peer
        self.is_closed = False

    def get_extra_info(self, key, default=None):
        if key == 'peername':
            return self.peer
        return ('127.0.0.1', 502)

    def write(self, data):
        if not self.is_closed:
            self.res.sent[self.c].append(bytes(data))

    def sendto(self, data, addr=None):
        self.res.sent.setdefault(addr[1] - 1000, []).append(bytes(data))

    def close(self):
        self.is_closed = True

    def abort(self):
        self.is_closed = True


def _run_aio(frontend, framing_cls, ctx, script, flags):
    import pymodbus.server.async_io as sa
    res = Result()
    loop_errors = []

    async def settle(h):
        for _ in range(4):
            await asyncio.sleep(0)
        for _ in range(50):
            if h.receive_queue.empty():
                break
            await asyncio.sleep(0)

    async def main():
        loop = asyncio.get_event_loop()
        loop.set_exception_handler(lambda l, c: loop_errors.append(repr(c.get('exception') or c.get('message'))))
        srv = make_server(frontend, ctx, framing_cls, flags, loop)
        res.real_server = srv.verif_real
        handlers = {}
        transports = {}
        if frontend == 'aio_tcp':
            for c in _conns(script):
                res.sent[c] = []
                res.closed[c] = False
                t = _AioTransport(res, c, ('127.0.0.1', 1000 + c))
                h = sa.ModbusConnectedRequestHandler(srv)
                h.connection_made(t)
                handlers[c], transports[c] = h, t
                await asyncio.sleep(0)
            for c, data, flag in script:
                h, t = handlers[c], transports[c]
                if res.closed[c]:
                    res.dropped += 1
                    continue
                h.data_received(data)
                if flag == 'burst':
                    continue
                await settle(h)
                if t.is_closed:
                    res.closed[c] = True
                    h.connection_lost(None)
                    await asyncio.sleep(0)
                elif h.handler_task.done():
                    exc = None
                    try:
                        exc = h.handler_task.exception()
                    except BaseException as e:
                        exc = e
                    res.escaped.append((c, 'handler task ended: %r' % (exc,)))
                    res.closed[c] = True
            for c, h in handlers.items():
                if not res.closed[c]:
                    await settle(h)
                    if transports[c].is_closed:
                        res.closed[c] = True
            for c, h in handlers.items():
                if not res.closed[c]:
                    h.connection_lost(None)
            await asyncio.sleep(0)
        else:
            for c in _conns(script):
                res.sent[c] = []
                res.closed[c] = False
            t = _AioTransport(res, -1, None)
            h = sa.ModbusDisconnectedRequestHandler(srv)
            h.connection_made(t)
            await asyncio.sleep(0)
            for c, data, flag in script:
                if h.handler_task.done():
                    res.dropped += 1
                    continue
                h.datagram_received(data, ('127.0.0.1', 1000 + c))
                if flag == 'burst':
                    continue
                await settle(h)
                if h.handler_task.done():
                    exc = None
                    try:
                        exc = h.handler_task.exception()
                    except BaseException as e:
                        exc = e
                    res.escaped.append((c, 'handler task ended: %r' % (exc,)))
            if not h.handler_task.done():
                await settle(h)
            serving_errors = list(loop_errors)
            if not h.handler_task.done():
                h.handler_task.cancel()
            await asyncio.sleep(0)
            # what the handler does when it is cancelled at shutdown is not part of serving requests
            if h.handler_task.done() and not h.handler_task.cancelled():
                try:
                    h.handler_task.exception()
                except BaseException:
                    pass
            del loop_errors[:]
            loop_errors.extend(serving_errors)

    loop = asyncio.new_event_loop()
    try:
        asyncio.set_event_loop(loop)
        loop.run_until_complete(main())
    finally:
        try:
            pending = [t for t in asyncio.all_tasks(loop) if not t.done()]
            for t in pending:
                t.cancel()
            if pending:
                loop.run_until_complete(asyncio.gather(*pending, return_exceptions=True))
        finally:
            asyncio.set_event_loop(None)
            loop.close()
    for e in loop_errors:
        res.escaped.append((-1, 'event loop exception handler: %s' % e))
    return res


# ------------------------------------------------------------------ Twisted protocols
def _run_tw_tcp(framing_cls, ctx, script, flags):
    import pymodbus.server.asynchronous as st
    from twisted.internet.testing import StringTransport
    res = Result()
    kw = {'ignore_missing_slaves': flags.get('ignore_missing_slaves', False)}
    factory = st.ModbusServerFactory(ctx, framing_cls, **kw)
    protos = {}

    class RecTransport(StringTransport):
        def __init__(self, c):
            StringTransport.__init__(self)
            self.c = c

        def write(self, data):
            res.sent[self.c].append(bytes(data))
            StringTransport.write(self, data)

    for c in _conns(script):
        res.sent[c] = []
        res.closed[c] = False
        p = factory.buildProtocol(None)
        t = RecTransport(c)
        p.makeConnection(t)
        protos[c] = (p, t)
    for c, data, _flag in script:
        p, t = protos[c]
        if res.closed[c]:
            res.dropped += 1
            continue
        try:
            p.dataReceived(data)
        except Exception as e:
            # the reactor logs the failure and drops this connection
            res.closed[c] = True
            res.escaped.append((c, 'reactor-handled: %s: %s' % (type(e).__name__, e)))
            try:
                p.connectionLost(None)
            except Exception:
                pass
        if t.disconnecting:
            res.closed[c] = True
    return res


def _run_tw_udp(framing_cls, ctx, script, flags):
    import pymodbus.server.asynchronous as st
    res = Result()
    kw = {'ignore_missing_slaves': flags.get('ignore_missing_slaves', False)}
    p = st.ModbusUdpProtocol(ctx, framing_cls, **kw)
    for c in _conns(script):
        res.sent[c] = []
        res.closed[c] = False
    p.transport = types.SimpleNamespace(write=lambda d, a: res.sent.setdefault(a[1] - 1000, []).append(bytes(d)))
    for c, data, _flag in script:
        try:
            p.datagramReceived(data, ('127.0.0.1', 1000 + c))
        except Exception as e:
            res.escaped.append((c, 'reactor-handled: %s: %s' % (type(e).__name__, e)))
    return res


def run(frontend, framing, ctx, script, ignore_missing_slaves=False, broadcast_enable=False):
    from vlib import pm
    # an empty read is end-of-stream on a socket and cannot be received as a datagram: never deliver one.
    # (conn, None) = an idle receive timeout on that connection (only the sync stream handler can observe one);
    # (conn, data, 'burst') = the next item is delivered before the event loop gives the handler a turn (asyncio only).
    norm = []
    for it in script:
        c, d = it[0], it[1]
        flag = it[2] if len(it) > 2 else None
        if d is None:
            if frontend == 'sync_tcp':
                norm.append((c, None, None))
        elif d or frontend in DATAGRAM or frontend == 'sync_serial':
            # a zero-length datagram is a datagram; a zero-length read is a read time-out on a serial port, but end-of-stream on a socket
            norm.append((c, d, flag))
    script = norm
    fc = pm.framer_class(framing)
    flags = {'ignore_missing_slaves': ignore_missing_slaves, 'broadcast_enable': broadcast_enable}
    if frontend in ('sync_tcp', 'sync_serial'):
        return _run_sync_stream(frontend, fc, ctx, script, flags)
    if frontend == 'sync_udp':
        return _run_sync_udp(fc, ctx, script, flags)
    if frontend in ('aio_tcp', 'aio_udp'):
        return _run_aio(frontend, fc, ctx, script, flags)
    if frontend == 'tw_tcp':
        return _run_tw_tcp(fc, ctx, script, flags)
    if frontend == 'tw_udp':
        return _run_tw_udp(fc, ctx, script, flags)
    raise ValueError(frontend)
