#!/venv/bin/python
"""Single entry point: run_check.py <Cnn> [--tier quick|thorough] [--replay FILE]

exit 0  property held on everything explored (KNOWN-FINDING lines may be printed)
exit 1  VIOLATION property=<id> replay=<path>
exit 2  harness error (never a VIOLATION)
"""
import os
import sys

HERE = os.path.dirname(os.path.abspath(__file__))


def main():
    args = sys.argv[1:]
    if not args:
        print(__doc__)
        return 2
    pid = args[0].upper()
    tier = os.environ.get('VERIF_TIER', 'quick')
    replay = None
    survey = None
    i = 1
    while i < len(args):
        if args[i] == '--tier':
            tier = args[i + 1]
            i += 2
        elif args[i] == '--replay':
            replay = args[i + 1]
            i += 2
        elif args[i] == '--survey':
            survey = int(args[i + 1])
            i += 2
        else:
            print('unknown argument %r' % args[i])
            return 2
    if tier not in ('quick', 'thorough'):
        print('bad tier')
        return 2

    # determinism: fixed hash seed, no bytecode litter in /repo
    if os.environ.get('PYTHONHASHSEED') != '0' or os.environ.get('VERIF_REEXEC') != '1':
        env = dict(os.environ)
        env['PYTHONHASHSEED'] = '0'
        env['PYTHONDONTWRITEBYTECODE'] = '1'
        env['VERIF_REEXEC'] = '1'
        env['PYMODBUS_VERIF'] = '1'
        os.execve(sys.executable, [sys.executable, os.path.abspath(__file__)] + args, env)

    repo = os.path.abspath(os.environ.get('VERIF_REPO', '/repo'))
    sys.path.insert(0, repo)
    sys.path.insert(0, HERE)
    deps = os.path.join(HERE, '.deps')
    if os.path.isdir(deps):
        sys.path.append(deps)
    import logging
    logging.disable(logging.CRITICAL)
    import warnings
    warnings.simplefilter('ignore')
    try:
        import pymodbus
        if not os.path.abspath(pymodbus.__file__).startswith(repo + os.sep):
            print('HARNESS-ERROR pymodbus imported from %s, not from %s' % (pymodbus.__file__, repo))
            return 2
        import hypothesis  # noqa
    except Exception as e:
        # a tree that does not import is not a tree the suite would pass either
        print('HARNESS-ERROR import failed: %r' % (e,))
        return 2
    seed = int(os.environ.get('VERIF_SEED', '1'))
    from vlib import engine
    try:
        if survey:
            return engine.survey('checks.%s' % pid.lower(), tier, seed, survey)
        return engine.run('checks.%s' % pid.lower(), tier, seed, replay)
    except engine.HarnessError as e:
        print('HARNESS-ERROR %s' % (e,))
        return 2
    except Exception:
        import traceback
        traceback.print_exc()
        print('HARNESS-ERROR unexpected exception in the machinery')
        return 2


if __name__ == '__main__':
    sys.exit(main())
