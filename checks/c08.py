"""C08 Synchronous client returns only the reply to its own request."""
from hypothesis import strategies as st

from vlib import gens, kinds, pm, refframe, specpdu, transports
from vlib.engine import Disc, Outcome

PID = 'C08'
RULE = ('Hypothesis: client in {ModbusTcpClient, serial rtu, serial ascii, serial binary, ModbusTcpClient with the RTU framer} '
        '(and with the ASCII framer) x a history of 1..6 transactions (request kinds FC 1-6,15,16,22,23, diagnostics, report-slave-id) x per transaction '
        'a peer script listing what enters the receive path after the request is written: the conformant reply (normal or '
        'exception, reference-built, values unique per transaction) and/or foreign frames (reply with another transaction id, '
        'another unit, another function code, a duplicate of the previous reply), before, after or instead of it; the '
        'transaction-id counter starts at 0 or at 65533 (wrap). Oracle: the value returned is either an error object '
        '(ModbusIOException) or a response with the request\'s tid (TCP) / unit (serial framings) and function code fc or '
        'fc|0x80 whose fields equal the independent decode of a frame that entered the receive path during this call; when '
        'only the conformant reply is scripted, that reply is returned with exactly the scripted values. Non-trivial: a '
        'foreign/stale frame in some script, or >=2 transactions; distinct by SHA-1. Serial clients are also built with generated options: handle_local_echo on a line that echoes every written byte, strict on/off, baud rate 9600..115200. Stale frames may carry transaction id 0 / 0xFFFF or be exception replies to another function; two client objects may take turns; large replies (up to 125 registers / 2000 bits); sweep of 300 (thorough 700) transactions on one long-lived client of every kind.')
ASSUMPTIONS = ['serial request units are drawn from 1..247 (0 is broadcast, 0 and 0xFF are documented wildcards of the unit filter)',
               'an exception raised by the call is not judged here (C13 owns "returns an error object instead of raising")',
               'binary transactions whose frames contain delimiter bytes are excluded (KF-BINARY-FRAMER-DELIMITER-BYTES)']
BUDGET = {'quick': 5000, 'thorough': 10000}
CLIENTS = ['tcp', 'rtu', 'ascii', 'binary', 'tcp+rtu', 'tcp+ascii']
PARTS = ['reply', 'reply', 'exc', 'other_tid', 'other_unit', 'other_fc', 'dup_prev', 'tid_zero', 'tid_max', 'other_fc_exc', 'corrupt']


def framing_of(client):
    return {'tcp': 'tcp', 'rtu': 'rtu', 'ascii': 'ascii', 'binary': 'binary', 'tcp+rtu': 'rtu', 'tcp+ascii': 'ascii'}[client]


@st.composite
def _request(draw):
    fc = draw(st.sampled_from([1, 2, 3, 4, 5, 6, 15, 16, 22, 23, 8, 17]))
    a = draw(st.integers(0, 200))
    if fc in (1, 2):
        return ['req:%d' % fc, {'address': a, 'quantity': draw(st.one_of(st.integers(1, 40), st.integers(1, 40), st.sampled_from([976, 977, 1000, 1999, 2000])))}]
    if fc in (3, 4):
        return ['req:%d' % fc, {'address': a, 'quantity': draw(st.one_of(st.integers(1, 12), st.integers(1, 12), st.sampled_from([61, 62, 63, 124, 125])))}]
    if fc == 5:
        return ['req:5', {'address': a, 'value': draw(st.sampled_from([0xFF00, 0]))}]
    if fc == 6:
        return ['req:6', {'address': a, 'value': draw(gens.u16())}]
    if fc == 15:
        return ['req:15', {'address': a, 'bits': draw(st.lists(st.booleans(), min_size=1, max_size=12))}]
    if fc == 16:
        return ['req:16', {'address': a, 'registers': draw(st.lists(gens.u16(), min_size=1, max_size=5))}]
    if fc == 22:
        return ['req:22', {'address': a, 'and_mask': draw(gens.u16()), 'or_mask': draw(gens.u16())}]
    if fc == 23:
        return ['req:23', {'read_address': a, 'read_quantity': draw(st.one_of(st.integers(1, 8), st.sampled_from([62, 125]))), 'write_address': a,
                           'registers': draw(st.lists(gens.u16(), min_size=1, max_size=3))}]
    if fc == 8:
        return ['req:8', {'sub': draw(st.sampled_from([0, 2, 10, 11, 14])), 'data': [draw(gens.u16())]}]
    return ['req:17', {}]


@st.composite
def _case(draw):
    client = draw(st.sampled_from(CLIENTS))
    n = draw(st.integers(1, 6))
    txs = []
    for i in range(n):
        k, f = draw(_request())
        script = draw(st.one_of(st.just(['reply']), st.just(['reply']), st.just(['exc']),
                                st.lists(st.sampled_from(PARTS), min_size=0, max_size=3)))
        txs.append({'kind': k, 'fields': f, 'unit': draw(st.integers(1, 247)), 'script': script})
    return {'client': client, 'tid_start': draw(st.sampled_from([0, 0, 65532, 65533, 65534, 65535])), 'txs': txs,
            'serial': draw(transports.serial_options()) if client in ('rtu', 'ascii', 'binary') else {},
            # two client objects of the same kind in one process take turns (each has its own connection): nothing of one may show in the other
            'two_clients': draw(st.booleans()) if client.startswith('tcp') else False}


def strategy(tier):
    return _case()


def sweeps(tier):
    """Long-lived clients: some hundred transactions on one client object, each answered by a conformant peer, with a stale frame
    now and then (counters, caches and id bookkeeping that only go wrong after many calls)."""
    n = 700 if tier == 'thorough' else 300
    cases = []
    for client in CLIENTS:
        txs = []
        for i in range(n):
            fc = (3, 1, 4, 6, 16)[i % 5]
            if fc in (3, 4):
                k, f = 'req:%d' % fc, {'address': i % 200, 'quantity': 1 + i % 9}
            elif fc == 1:
                k, f = 'req:1', {'address': i % 200, 'quantity': 1 + i % 33}
            elif fc == 6:
                k, f = 'req:6', {'address': i % 200, 'value': (i * 257) & 0xFFFF}
            else:
                k, f = 'req:16', {'address': i % 200, 'registers': [(i + j) & 0xFFFF for j in range(1 + i % 4)]}
            txs.append({'kind': k, 'fields': f, 'unit': 1 + i % 5, 'script': ['other_tid', 'reply'] if i % 97 == 50 and client == 'tcp' else ['reply']})
        cases.append({'client': client, 'tid_start': 65300 if client == 'tcp' else 0, 'txs': txs})
    return [('long-lived-client-%d-transactions' % n, cases, False)]


class ScriptPeer(transports.Peer):
    def __init__(self, framing):
        transports.Peer.__init__(self)
        self.framing = framing
        self.script = []
        self.seq = 0
        self.prev_reply = None
        self.placed = []       # frames placed during the current call: dict(uid,tid,pdu,role)
        self.bad_request = None

    def on_write(self, conn, data):
        self.seq += 1
        try:
            p = refframe.parse_one(self.framing, data)
        except refframe.FrameError as e:
            self.bad_request = (data, str(e))
            return []
        uid, tid, rpdu = p['uid'], p['tid'], p['pdu']
        out = b''
        for part in self.script:
            if part == 'reply':
                fr = (uid, tid, transports.reply_pdu(rpdu, self.seq))
            elif part == 'exc':
                fr = (uid, tid, bytes([rpdu[0] | 0x80, 1 + self.seq % 4]))
            elif part == 'other_tid':
                fr = (uid, ((tid or 0) + 5) & 0xFFFF, transports.reply_pdu(rpdu, self.seq + 1000))
            elif part in ('tid_zero', 'tid_max'):
                # a stale reply carrying the smallest / largest transaction id (ids just after / before the counter wraps)
                t_ = 0 if part == 'tid_zero' else 0xFFFF
                if (tid or 0) == t_:
                    t_ ^= 0x0101
                fr = (uid, t_, transports.reply_pdu(rpdu, self.seq + 3000))
            elif part == 'other_unit':
                other = [0, (uid % 247) + 1, 255, uid - 1 if uid > 1 else 2][(self.seq + len(self.placed)) % 4]
                fr = (other, tid, transports.reply_pdu(rpdu, self.seq + 2000))
            elif part == 'corrupt':
                fr = (uid, tid, transports.reply_pdu(rpdu, self.seq + 4000))
            elif part == 'other_fc_exc':
                # an exception reply to ANOTHER function (same unit, same transaction id)
                ofc = 4 if rpdu[0] != 4 else 3
                fr = (uid, tid, bytes([ofc | 0x80, 1 + self.seq % 4]))
            elif part == 'other_fc':
                ofc = 4 if rpdu[0] != 4 else 3
                fr = (uid, tid, specpdu.encode('rsp:%d' % ofc, {'registers': [self.seq, 0xABCD]}))
            else:
                if self.prev_reply is None:
                    continue
                fr = self.prev_reply
            role = 'other_tid' if part in ('tid_zero', 'tid_max') else ('other_fc' if part == 'other_fc_exc' else part)
            frame = refframe.build(self.framing, fr[0], fr[2], fr[1] or 0, 0)
            if part == 'corrupt':
                if self.framing == 'tcp':
                    continue                     # no checksum on TCP: a flipped data bit is a different valid frame
                # the reply with one data bit flipped on the line (check value left as it was)
                good = bytes(fr[2])
                bad = good[:-1] + bytes([good[-1] ^ 0x01])
                pos = frame.find(good) if self.framing != 'ascii' else frame.find(good.hex().upper().encode())
                if pos < 0:
                    continue
                frame = frame[:pos] + (bad if self.framing != 'ascii' else bad.hex().upper().encode()) + frame[pos + (len(good) if self.framing != 'ascii' else 2 * len(good)):]
                fr = (fr[0], fr[1], bad)
            self.placed.append({'uid': fr[0], 'tid': fr[1], 'pdu': fr[2], 'role': role, 'frame': frame})
            if part in ('reply', 'exc'):
                self.prev_reply = fr
            out += frame
        return [(0.0, out)] if out else []


def _mk_client(kind, w=None, serial=None):
    from pymodbus.client.sync import ModbusTcpClient, ModbusSerialClient
    from pymodbus.transaction import ModbusRtuFramer
    if kind == 'tcp':
        return ModbusTcpClient('peer', 502, timeout=1)
    if kind == 'tcp+rtu':
        return ModbusTcpClient('peer', 502, framer=ModbusRtuFramer, timeout=1)
    if kind == 'tcp+ascii':
        from pymodbus.transaction import ModbusAsciiFramer
        return ModbusTcpClient('peer', 502, framer=ModbusAsciiFramer, timeout=1)
    return ModbusSerialClient(method=kind, port='/dev/null', timeout=1, **transports.serial_kwargs(w, serial))


def run_case(case):
    from pymodbus.exceptions import ModbusIOException
    from pymodbus.pdu import ModbusResponse
    pm.reset_globals()
    ckind = case['client']
    framing = framing_of(ckind)
    labels = ['client:' + ckind]
    discs = []
    peer = ScriptPeer(framing)
    nt = len(case['txs']) >= 2
    with transports.World(peer) as w:
        clients = [_mk_client(ckind, w, case.get('serial'))]
        if case.get('serial'):
            labels.append('serial-opts:' + ','.join('%s=%s' % kv for kv in sorted(case['serial'].items())))
        clients[0].transaction.tid = case['tid_start']
        if case.get('two_clients') and ckind.startswith('tcp'):
            clients.append(_mk_client(ckind, w, None))
            clients[1].transaction.tid = case['tid_start']      # the same ids on both connections
            labels.append('two-clients')
        state = [{'leftovers': [], 'rest': b'', 'dirty': None} for _ in clients]     # per client: frames / bytes still in its receive path
        for i, tx in enumerate(case['txs']):
            client = clients[i % len(clients)]
            leftovers, rest = state[i % len(clients)]['leftovers'], state[i % len(clients)]['rest']
            peer.script = tx['script']
            peer.placed = []
            if any(p not in ('reply', 'exc') for p in tx['script']):
                nt = True
                labels.append('foreign-frame-scripted')
            req = kinds.build(tx['kind'], tx['fields'], unit=tx['unit'])
            rpdu = specpdu.encode(tx['kind'], tx['fields'])
            if framing == 'binary':
                fr = refframe.build('binary', tx['unit'], rpdu)
                if refframe.binary_fragile(fr):
                    labels.append('excluded-binary-delimiter')
                    break
            if framing != 'tcp' and not ckind.startswith('tcp+'):
                rest = b''           # a serial client flushes its input before it sends
                leftovers = []
            st_ = state[i % len(clients)]
            if st_['dirty'] is not None and (client.socket is not st_['dirty'] or framing != 'tcp' and not ckind.startswith('tcp+')):
                st_['dirty'] = None            # the client has given that connection up (or flushes its input before it sends)
            dirty_at_start = st_['dirty'] is not None
            try:
                result = client.execute(req)
            except transports.StepBudgetExceeded as e:
                discs.append(Disc('no-termination', 'tx %d: %s' % (i, e)))
                break
            except Exception as e:
                if tx['script'] in (['reply'], ['exc']) and not rest and not dirty_at_start:
                    discs.append(Disc('conformant-reply-not-returned', '%s tx %d %s unit %d (tid counter started at %d): a conformant peer answers but the call raised %s: %s' % (
                        ckind, i, tx['kind'], tx['unit'], case['tid_start'], type(e).__name__, e)))
                else:
                    labels.append('raised(C13)')
                break
            if peer.bad_request:
                discs.append(Disc('request-frame', 'tx %d: client wrote a frame the reference cannot parse: %s %s' % (i, peer.bad_request[0].hex()[:60], peer.bad_request[1])))
                break
            if framing == 'binary' and any(refframe.binary_fragile(p['frame']) for p in peer.placed):
                labels.append('excluded-binary-delimiter')
                break
            req_tid = refframe.parse_one(framing, peer.written[-1])['tid'] if peer.written else None
            candidates = leftovers + peer.placed
            # frames scripted in addition to the reply of an earlier call may still be on their way to this call - in the socket or in
            # a read-ahead buffer of the client - as long as the client keeps the same connection
            conformant_only = tx['script'] in (['reply'], ['exc']) and not rest and not dirty_at_start
            if isinstance(result, ModbusIOException) or not isinstance(result, ModbusResponse):
                labels.append('error-object')
                if conformant_only and not isinstance(result, ModbusResponse):
                    discs.append(Disc('conformant-reply-not-returned', '%s tx %d %s unit %d: only the conformant reply %s was in the receive path but the call returned %r' % (
                        ckind, i, tx['kind'], tx['unit'], peer.placed[0]['frame'].hex()[:60], result), _kf(ckind, tx, peer)))
                    break
            else:
                labels.append('response-object')
                k2, g = kinds.norm(result)
                fc = result.function_code
                ok_fc = fc in (rpdu[0], rpdu[0] | 0x80)
                ok_unit = framing == 'tcp' or result.unit_id == tx['unit']
                ok_tid = framing != 'tcp' or result.transaction_id == req_tid
                match = None
                for p in candidates:
                    try:
                        sk, sf = specpdu.decode('rsp', p['pdu'])
                    except specpdu.SpecError:
                        continue
                    if sk == k2 and kinds.fields_equal(sf, g) and (framing == 'tcp' or p['uid'] == result.unit_id) and \
                            (framing != 'tcp' or p['tid'] == result.transaction_id):
                        match = p
                        break
                if not ok_fc or not ok_unit or not ok_tid:
                    discs.append(Disc('foreign-reply-returned', '%s tx %d: request %s unit %d tid %r; returned %s fc %#x unit %r tid %r (script %r, leftovers %d)' % (
                        ckind, i, tx['kind'], tx['unit'], req_tid, type(result).__name__, fc, result.unit_id, result.transaction_id, tx['script'], len(leftovers)),
                        _kf_foreign(ckind, ok_fc, ok_unit, ok_tid)))
                    break
                if match is None:
                    discs.append(Disc('reply-not-from-this-call', '%s tx %d: returned %s %r matches no frame that entered the receive path (script %r)' % (
                        ckind, i, k2, g, tx['script'])))
                    break
                if match['role'] == 'corrupt':
                    discs.append(Disc('corrupted-reply-returned', '%s tx %d: the call returned the content of a reply whose check value does not match (a bit was flipped on the line): %s %r' % (ckind, i, k2, g)))
                    break
                if conformant_only and match['role'] not in ('reply', 'exc'):
                    discs.append(Disc('conformant-reply-not-returned', '%s tx %d: returned a %s frame' % (ckind, i, match['role'])))
                    break
            # what is still unread stays in the receive path for the next call (TCP) or is flushed before the next send (serial)
            conn = client.socket
            rest = conn.rx if conn is not None and not conn.closed else b''
            leftovers = [p for p in candidates if p['frame'] in rest] if rest else []
            state[i % len(clients)]['leftovers'], state[i % len(clients)]['rest'] = leftovers, rest
            if tx['script'] not in (['reply'], ['exc']) and client.socket is not None:
                st_['dirty'] = client.socket
    pm.reset_globals()
    return Outcome(discs, labels, nt)


def _kf(ckind, tx, peer):
    return None


def _kf_foreign(ckind, ok_fc, ok_unit, ok_tid):
    return None
