"""C06 Framing is independent of how the byte stream is chunked."""
from hypothesis import strategies as st

from vlib import gens, kinds, pm, refframe, specpdu
from vlib.engine import Disc, Outcome

PID = 'C06'
RULE = ('Hypothesis: stream of 1..5 reference-built valid frames (mixed message kinds incl. exception responses, one hosted '
        'unit, spec-built PDUs; one frame in six is addressed to ANOTHER unit and has to be stepped over) on tcp / rtu / ascii / binary x request or response direction, and a chunking: whole, every k '
        'bytes, explicit cut sets (biased to header interiors and frame boundaries +-1, empty reads included), or a bit mask '
        'over all cut positions. Oracle (metamorphic): baseline = one frame per call into a fresh framer, recording through a '
        'decoder proxy the exact (PDU bytes, unit, tid, pid) delivered; the chunked delivery into another fresh framer must '
        'deliver the identical list in order and no call may raise. Streams whose baseline is not the generated frame list '
        '(recorded findings: binary delimiter bytes, RTU multi-word diagnostics, undecodable FIFO responses) are excluded and '
        'counted. Sweeps: ALL 2^(n-1) cut sets of single frames and two-frame streams (sizes bounded per tier). Non-trivial: '
        'some cut strictly inside a frame or a chunk holding bytes of >=2 frames; distinct by SHA-1. Streams may also be long pipelines (17..45 frames, sweep up to 100 frames in one read), contain frames addressed to another unit, and empty reads are inserted between any two chunks.')
ASSUMPTIONS = ['the caller passes unit=[uid], single=False as a server hosting that unit (or a client expecting it) does']
BUDGET = {'quick': 6000, 'thorough': 15000}
FRAMINGS = ['tcp', 'rtu', 'ascii', 'binary']


@st.composite
def _case(draw):
    framing = draw(st.sampled_from(FRAMINGS))
    direction = draw(st.sampled_from(['req', 'rsp']))
    uid = draw(st.one_of(st.integers(1, 247), st.sampled_from([0, 1, 0x3A, 0x7B, 255])))
    n = draw(st.one_of(st.integers(1, 5), st.integers(1, 5), st.integers(1, 5), st.integers(17, 45)))     # now and then a long pipeline
    frames = []
    for i in range(n):
        if n > 5:
            kind, f = draw(st.sampled_from([('req:3', {'address': 1, 'quantity': 2}), ('req:7', {}), ('req:6', {'address': 2, 'value': 5})] if direction == 'req' else
                                           [('rsp:3', {'registers': [1, 2]}), ('rsp:7', {'status': 3}), ('rsp:6', {'address': 2, 'value': 5})]))
        else:
            kind, f = draw(gens.message(direction, spec_mode=False))
        if framing == 'rtu' and kind.endswith(':8'):
            f = dict(f, data=(f['data'][:1] or [0]), sub=(10 if f['sub'] == 4 and direction == 'rsp' else f['sub']))
        if kind == 'rsp:8' and f['sub'] == 4:
            f = {'sub': 10, 'data': [0]}
        pdu = specpdu.encode(kind, f)
        fr_ = {'tid': draw(gens.u16()), 'pdu': pdu.hex()}
        if draw(st.integers(0, 5)) == 0:
            # traffic of another unit on the same line / connection: a valid frame this receiver has to step over
            fr_['foreign'] = draw(st.sampled_from([1, 2, 9, 0x30, 200, 246]))
        frames.append(fr_)
    total = sum(_flen(framing, len(fr['pdu']) // 2) for fr in frames)
    cut = draw(st.one_of(gens.cuts(), gens.cuts(),
                         st.tuples(st.just('mask'), st.integers(0, (1 << min(total, 60)) - 1)).map(list),
                         st.tuples(st.just('near'), st.lists(st.tuples(st.integers(0, n), st.integers(-3, 9)), min_size=1, max_size=5)).map(
                             lambda t: [t[0], [list(x) for x in t[1]]])))
    return {'framing': framing, 'dir': direction, 'uid': uid, 'frames': frames, 'cut': cut,
            # empty reads (a read that returns nothing) inserted between the chunks, also in the middle of a frame
            'empties': draw(st.one_of(st.just([]), st.lists(st.integers(0, 40), min_size=1, max_size=4)))}


def _flen(framing, pdulen):
    return {'tcp': 7 + pdulen, 'rtu': 3 + pdulen, 'ascii': 5 + 2 * (pdulen + 1), 'binary': 5 + pdulen}[framing]


def strategy(tier):
    return _case()


def sweeps(tier):
    out = []
    singles = {'req': ['0300010002', '0f0013000a02cd01', '11'], 'rsp': ['030400010002', '8302', '0f0013000a']}
    cases = []
    maxlen = 16 if tier == 'thorough' else 12
    for framing in FRAMINGS:
        for d in ('req', 'rsp'):
            for hx in singles[d]:
                n = _flen(framing, len(hx) // 2)
                if n > maxlen:
                    continue
                for mask in range(1 << (n - 1)):
                    cases.append({'framing': framing, 'dir': d, 'uid': 5, 'frames': [{'tid': 9, 'pdu': hx}], 'cut': ['mask', mask]})
    out.append(('all-cut-sets-of-single-frames', cases, True))
    cases = []
    maxlen = 18 if tier == 'thorough' else 12
    for framing in FRAMINGS:
        for d, a, b in (('req', '11', '0c'), ('rsp', '8302', '0701'), ('req', '07', '0300010002')):
            n = _flen(framing, len(a) // 2) + _flen(framing, len(b) // 2)
            if n > maxlen:
                continue
            for mask in range(1 << (n - 1)):
                cases.append({'framing': framing, 'dir': d, 'uid': 5, 'frames': [{'tid': 1, 'pdu': a}, {'tid': 2, 'pdu': b}], 'cut': ['mask', mask]})
    out.append(('all-cut-sets-of-two-frame-streams', cases, True))
    cases = []
    for framing in FRAMINGS:
        for d in ('req', 'rsp'):
            hx = singles[d][0]
            n = _flen(framing, len(hx) // 2)
            for cutpos in range(1, n):
                cases.append({'framing': framing, 'dir': d, 'uid': 5, 'frames': [{'tid': 9, 'pdu': hx}, {'tid': 10, 'pdu': hx}],
                              'cut': ['at', [cutpos]], 'empties': [1]})
    out.append(('one-empty-read-at-every-position-of-a-frame', cases, True))
    cases = []
    for framing in FRAMINGS:
        for d, hx in (('req', '0300010002'), ('rsp', '030400010002')):
            for nfr in (16, 17, 33, 64, 100):
                for cut in (['whole'], ['every', 1000], ['at', [3]]):
                    cases.append({'framing': framing, 'dir': d, 'uid': 5, 'frames': [{'tid': i + 1, 'pdu': hx} for i in range(nfr)], 'cut': cut})
    out.append(('long-pipelines-in-one-read', cases, False))
    return out


def chunks_of(stream, cut, bounds):
    if cut[0] == 'mask':
        out, prev = [], 0
        for i in range(1, len(stream)):
            if (cut[1] >> (i - 1)) & 1:
                out.append(stream[prev:i])
                prev = i
        out.append(stream[prev:])
        return out
    if cut[0] == 'near':
        offs = []
        for fi, d in cut[1]:
            base = bounds[min(fi, len(bounds) - 1)]
            offs.append(max(0, min(len(stream), base + d)))
        return gens.apply_cuts(stream, ['at', offs])
    return gens.apply_cuts(stream, cut)


def deliver(framing, direction, uid, chunks):
    """-> (deliveries [(pdu hex, uid, tid, pid)], exception text or None, buffered bytes left)"""
    proxy = pm.RecordingDecoder(pm.decoder(direction))
    fr = pm.framer_class(framing)(proxy)
    got = []

    def cb(m):
        pdu_ = proxy.pdu_of(m)
        got.append((pdu_.hex() if pdu_ is not None else None, m.unit_id,
                    m.transaction_id if framing == 'tcp' else None, m.protocol_id if framing == 'tcp' else None))
    for i, c in enumerate(chunks):
        try:
            fr.processIncomingPacket(c, cb, [uid], single=False)
        except Exception as e:
            return got, 'chunk %d (%s): %s: %s' % (i, c.hex()[:40], type(e).__name__, e), len(fr._buffer)
    return got, None, len(fr._buffer)


def run_case(case):
    framing, direction, uid = case['framing'], case['dir'], case['uid']
    labels = ['framing:' + framing, 'dir:' + direction, 'frames:%d' % len(case['frames'])]
    def unit_of(f):
        u = f.get('foreign')
        return uid if u is None or u == uid or uid in (0, 255) else u
    frames = [refframe.build(framing, unit_of(f), bytes.fromhex(f['pdu']), f['tid'], 0) for f in case['frames']]
    if any(unit_of(f) != uid for f in case['frames']):
        labels.append('foreign-unit-frames')
    stream = b''.join(frames)
    bounds = [0]
    for f in frames:
        bounds.append(bounds[-1] + len(f))
    base, berr, bleft = deliver(framing, direction, uid, frames)
    want = [(f['pdu'], uid, f['tid'] if framing == 'tcp' else None, 0 if framing == 'tcp' else None) for f in case['frames'] if unit_of(f) == uid]
    if berr is not None or base != want:
        return Outcome([], labels + ['excluded-baseline-not-clean'], False)
    chunks = chunks_of(stream, case['cut'], bounds)
    for pos_ in sorted(case.get('empties') or [], reverse=True):
        chunks.insert(pos_ % (len(chunks) + 1), b'')
    inner = set(bounds[1:-1])
    cutpos, p = [], 0
    for c in chunks[:-1]:
        p += len(c)
        cutpos.append(p)
    nt = any(c not in bounds for c in cutpos)
    multi = False
    p = 0
    for c in chunks:
        lo, hi = p, p + len(c)
        if any(lo < b < hi for b in inner):
            multi = True
        p = hi
    if nt:
        labels.append('cut-inside-frame')
    if multi:
        labels.append('chunk-spans-frames')
    if any(len(c) == 0 for c in chunks):
        labels.append('empty-read')
        p_ = 0
        for c in chunks:
            if not c and p_ not in bounds:
                labels.append('empty-read-inside-frame')
                break
            p_ += len(c)
    got, err, left = deliver(framing, direction, uid, chunks)
    discs = []
    if err is not None:
        discs.append(Disc('raises', '%s %s: chunked delivery raised at %s (cuts at %r of %d bytes, frame ends %r)' % (framing, direction, err, cutpos, len(stream), bounds[1:])))
    elif got != base:
        discs.append(Disc('deliveries-differ', '%s %s: one-frame-per-read delivers %d messages, cuts at %r (frame ends %r) deliver %d: %r' % (
            framing, direction, len(base), cutpos, bounds[1:], len(got), [g[0][:20] if g[0] else g[0] for g in got])))
    elif left:
        labels.append('bytes-left-buffered')     # recorded, not judged: the property speaks about delivered messages only
    return Outcome(discs, labels, nt or multi)
