"""C03 Each transport framing builds the spec ADU and round-trips messages."""
import struct

from hypothesis import strategies as st

from vlib import gens, kinds, refframe, pm
from vlib.engine import Disc, Outcome

PID = 'C03'
RULE = ('Hypothesis: framing in {tcp,rtu,ascii,binary,tls} x message (any registered kind, in-range fields, both '
        'directions) x unit 0..255 x tid 0..65535 x protocol id, with a payload bias that forces 0x7B 0x7D 0x0D 0x0A 0x3A '
        'into data/unit/tid positions; plus arbitrary byte strings for the checksum functions. Oracle: (a) buildPacket == '
        'vlib/refframe ADU around pymodbus\' own PDU; (b) a fresh framer given the packet whole (unit=[uid], single=False; TLS '
        'default) calls back exactly once, the PDU bytes handed to the decoder (recording proxy) equal the original PDU, '
        'unit/tid/pid preserved, buffer empty, nothing raised, delivered fields equal the original; (c) computeCRC/LRC == '
        'bitwise reference, checkCRC/checkLRC accept exactly the matching value. Non-trivial: PDU with >=1 data byte; '
        'delimiter-bearing payloads labelled separately; distinct by SHA-1. A sweep constructs frames whose own CRC / LRC is a '
        'special value (0x0000, 0xFFFF, a zero or 0xFF byte, a delimiter value) by enumeration over 65536 addresses.')
ASSUMPTIONS = ['vlib/refframe.py is the framing specification (self-checked against CRC/LRC/MBAP reference vectors)',
               'binary framing reference = {, unit, function, data, CRC-16 low byte first, } as the property states; '
               'escaping of delimiter bytes inside the frame is not specified by the property, so (a) is judged for '
               'delimiter-free frames and (b) for all']
BUDGET = {'quick': 8000, 'thorough': 25000}


@st.composite
def _msg_case(draw):
    framing = draw(st.sampled_from(refframe.FRAMINGS))
    kind = draw(st.sampled_from(kinds.ALL_KINDS))
    f = draw(gens.fields(kind, spec_mode=False))
    if kind == 'rsp:8' and f['sub'] == 4:
        f = {'sub': 10, 'data': [0]}     # the listen-only response is never sent (should_respond False)
    uid = draw(gens.u8())
    tid = draw(gens.u16())
    pid = draw(st.sampled_from([0, 0, 0, 1, 0x7B7D, 0xFFFF]))
    return {'t': 'msg', 'framing': framing, 'kind': kind, 'fields': f, 'uid': uid, 'tid': tid, 'pid': pid}


def strategy(tier):
    crc_case = st.fixed_dictionaries({'t': st.just('sum'), 'data': st.binary(min_size=0, max_size=300).map(lambda b: b.hex()),
                                      'probe': st.integers(0, 0xFFFF)})
    return st.one_of(_msg_case(), _msg_case(), _msg_case(), _msg_case(), crc_case)


def sweeps(tier):
    out = []
    # all 256 unit ids x boundary tids for one message per framing
    cases = []
    for framing in refframe.FRAMINGS:
        for uid in range(256):
            for tid in ((0, 1, 0x7B7D, 0xFFFF) if tier == 'thorough' else (0x0102,)):
                cases.append({'t': 'msg', 'framing': framing, 'kind': 'req:3', 'fields': {'address': 0x1234, 'quantity': 5},
                              'uid': uid, 'tid': tid, 'pid': 0})
                cases.append({'t': 'msg', 'framing': framing, 'kind': 'rsp:3', 'fields': {'registers': [0x1234, 5]},
                              'uid': uid, 'tid': tid, 'pid': 0})
    out.append(('all-unit-ids-x-framings', cases, True))
    # the largest legal messages of every variable-length kind, and one size below
    cases = []
    for framing in refframe.FRAMINGS:
        for d in (0, 1, 2):
            big = [('rsp:3', {'registers': [(i * 7 + 1) & 0xFFFF for i in range(125 - d)]}),
                   ('rsp:1', {'bits': [bool(i % 3) for i in range(2000 - 8 * d)]}),
                   ('rsp:2', {'bits': [bool(i % 5) for i in range(1985 + d)]}),
                   ('req:16', {'address': 1, 'registers': [(i * 5 + 2) & 0xFFFF for i in range(123 - d)]}),
                   ('req:15', {'address': 1, 'bits': [bool(i % 2) for i in range(1968 - 8 * d)]}),
                   ('req:23', {'read_address': 1, 'read_quantity': 125, 'write_address': 2, 'registers': [(i + 3) & 0xFFFF for i in range(121 - d)]}),
                   ('rsp:23', {'registers': [(i * 3) & 0xFFFF for i in range(125 - d)]}),
                   ('rsp:12', {'status_word': 0, 'event_count': 1, 'message_count': 2, 'events': [i & 0x7F for i in range(64 - d)]})]
            for kind, f in big:
                cases.append({'t': 'msg', 'framing': framing, 'kind': kind, 'fields': f, 'uid': 0x11, 'tid': 0x0102, 'pid': 0})
        for n in (1, 100, 127, 128, 129, 200, 243, 244):
            cases.append({'t': 'msg', 'framing': framing, 'kind': 'rsp:43', 'uid': 0x11, 'tid': 0x0102, 'pid': 0,
                          'fields': {'read_code': 1, 'conformity': 1, 'more': 0, 'next_id': 0, 'objects': [[0, '41' * n]]}})
            cases.append({'t': 'msg', 'framing': framing, 'kind': 'rsp:43', 'uid': 0x11, 'tid': 0x0102, 'pid': 0,
                          'fields': {'read_code': 3, 'conformity': 0x83, 'more': 0xFF, 'next_id': 0x81, 'objects': [[0, '42' * 5], [0x80, '43' * min(n, 230)]]}})
    out.append(('largest-legal-messages-x-framings', cases, True))
    # checkCRC / checkLRC accept exactly the matching value: all candidates for a few strings
    strings = [b'', b'\x00', b'\x01\x03\x00\x00\x00\x0a', bytes(range(40)), b'\xff' * 17]
    cases = [{'t': 'sum-all', 'data': s.hex()} for s in strings[:5 if tier == 'thorough' else 2]]
    out.append(('checksum-all-candidates', cases, True))
    # frames whose own check value is a special number (0x0000, 0xFFFF, a zero byte on either side, both bytes equal):
    # a relation between the bytes of a frame that random draws meet once in 65536 frames. Constructed by running
    # through the 65536 addresses of a small read request / write-single response per unit id.
    targets = {0x0000: 2, 0xFFFF: 2, 0x0001: 1, 0x0100: 1, 0x8000: 1, 0x0080: 1, 0x00FF: 1, 0xFF00: 1, 0x0101: 1, 0x7FFF: 1}
    ltargets = {0x00: 3, 0xFF: 2, 0x01: 1, 0x80: 1, 0x7F: 1, 0x0A: 1, 0x0D: 1, 0x3A: 1}
    cases = []
    for uid in ((1, 5, 0x11, 0xF7) if tier == 'thorough' else (1, 5)):
        for kind, mk, head in (('req:3', lambda a: {'address': a, 'quantity': 1}, lambda a: bytes([uid, 3, a >> 8, a & 0xFF, 0, 1])),
                               ('rsp:6', lambda a: {'address': a, 'value': 1}, lambda a: bytes([uid, 6, a >> 8, a & 0xFF, 0, 1]))):
            left, lleft = dict(targets), dict(ltargets)
            for a in range(0x10000):
                body = head(a)
                c = refframe.crc16(body)
                if left.get(c):
                    left[c] -= 1
                    for framing in ('rtu', 'binary'):
                        cases.append({'t': 'msg', 'framing': framing, 'kind': kind, 'fields': mk(a), 'uid': uid, 'tid': 0x0102, 'pid': 0})
                    cases.append({'t': 'sum', 'data': body.hex(), 'probe': 0})
                l = refframe.lrc(body)
                if lleft.get(l):
                    lleft[l] -= 1
                    cases.append({'t': 'msg', 'framing': 'ascii', 'kind': kind, 'fields': mk(a), 'uid': uid, 'tid': 0x0102, 'pid': 0})
                    cases.append({'t': 'sum', 'data': body.hex(), 'probe': 0})
    out.append(('special-check-values', cases, True))
    return out


def _kf_codec(kind, f):
    """kinds with a recorded codec finding (C01/C02): a field mismatch there is the codec's."""
    if kind == 'rsp:24' and len(f['values']) >= 1:
        return 'KF-FIFO-COUNT'
    if kind == 'rsp:20' and len(f['records']) >= 1:
        return 'KF-FILE-RECORD-RESPONSE-LAYOUT'
    return None


def _kf_framing(framing, kind, f, pdu, uid, dk):
    if framing == 'rtu' and kind in ('req:8', 'rsp:8') and len(f['data']) != 1 and dk in ('deliveries', 'decoder-bytes', 'buffer-left', 'raises'):
        return 'KF-RTU-DIAGNOSTIC-FIXED-SIZE'
    if framing == 'binary':
        body = bytes([uid]) + pdu
        wire = body + refframe.crc_wire(body)   # bytes between the delimiters before escaping
        if (0x7D in wire) or any(b in (0x7B, 0x7D) for b in pdu[1:]):
            return 'KF-BINARY-FRAMER-DELIMITER-BYTES'
    return None


def _run_sum(case):
    from pymodbus.utilities import computeCRC, computeLRC, checkCRC, checkLRC
    d = bytes.fromhex(case['data'])
    discs = []
    labels = ['sum']
    try:
        c = computeCRC(d)
        if struct.pack('>H', c) != refframe.crc_wire(d):
            discs.append(Disc('crc-value', 'computeCRC(%s) packs to %s, reference wire bytes %s' % (d.hex()[:60], struct.pack('>H', c).hex(), refframe.crc_wire(d).hex())))
        l = computeLRC(d)
        if l != refframe.lrc(d):
            discs.append(Disc('lrc-value', 'computeLRC(%s)=%#x reference %#x' % (d.hex()[:60], l, refframe.lrc(d))))
        good = struct.unpack('>H', refframe.crc_wire(d))[0]
        cands = [good] if case['t'] == 'sum' else None
        if case['t'] == 'sum':
            cands = set([good, case['probe'], good ^ 1, good ^ 0x8000, ((good << 8) | (good >> 8)) & 0xFFFF, (good + 1) & 0xFFFF])
            lc = set([refframe.lrc(d), case['probe'] & 0xFF, refframe.lrc(d) ^ 1, (refframe.lrc(d) + 1) & 0xFF, (-refframe.lrc(d)) & 0xFF])
        else:
            cands = range(0x10000)
            lc = range(0x100)
        for v in cands:
            if bool(checkCRC(d, v)) != (v == good):
                discs.append(Disc('crc-check', 'checkCRC(%s, %#06x) = %r' % (d.hex()[:60], v, checkCRC(d, v))))
                break
        for v in lc:
            if bool(checkLRC(d, v)) != (v == refframe.lrc(d)):
                discs.append(Disc('lrc-check', 'checkLRC(%s, %#04x) = %r' % (d.hex()[:60], v, checkLRC(d, v))))
                break
    except Exception as e:
        discs.append(Disc('checksum-raises', '%s: %s' % (type(e).__name__, e)))
    return Outcome(discs, labels, len(d) > 0)


def run_case(case):
    if case['t'] != 'msg':
        return _run_sum(case)
    framing, kind, f, uid, tid, pid = case['framing'], case['kind'], case['fields'], case['uid'], case['tid'], case['pid']
    direction = 'rsp' if kind == 'exc' else kind.split(':')[0]
    labels = ['framing:' + framing, 'dir:' + direction, 'kind:' + kind]
    discs = []
    Framer = pm.framer_class(framing)
    msg = kinds.build(kind, f, transaction=tid, protocol=pid, unit=uid)
    pdu = bytes([msg.function_code]) + msg.encode()
    has_delim = framing == 'binary' and any(b in (0x7B, 0x7D) for b in bytes([uid]) + pdu + refframe.crc_wire(bytes([uid]) + pdu))
    if any(b in (0x7B, 0x7D, 0x0D, 0x0A, 0x3A) for b in pdu):
        labels.append('delimiter-bytes-in-pdu')
    nt = len(pdu) > 1

    # (a) build
    try:
        packet = Framer(pm.decoder(direction)).buildPacket(msg)
    except Exception as e:
        return Outcome([Disc('build-raises', '%s %s: %s: %s' % (framing, kind, type(e).__name__, e))], labels, nt)
    want = refframe.build(framing, uid, pdu, tid, pid)
    if framing == 'binary' and any(b in (0x7B, 0x7D) for b in pdu[1:]):
        labels.append('binary-build-not-judged(delimiter in data)')
    elif packet != want:
        discs.append(Disc('build-mismatch', '%s %s uid=%d tid=%d: built %s, reference %s' % (framing, kind, uid, tid, packet.hex()[:100], want.hex()[:100])))

    # (b) whole-packet receive by a fresh framer
    proxy = pm.RecordingDecoder(pm.decoder(direction))
    fr = Framer(proxy)
    got = []
    kw = {} if framing == 'tls' else {'single': False}
    try:
        fr.processIncomingPacket(packet, got.append, [uid], **kw)
    except Exception as e:
        finding = _kf_framing(framing, kind, f, pdu, uid, 'raises')
        if finding is None and proxy.seen == [pdu] and type(e).__name__ == 'ModbusIOException':
            finding = _kf_codec(kind, f)     # framing handed over the right bytes; the codec could not decode its own output
        discs.append(Disc('raises', '%s %s: receive raised %s: %s' % (framing, kind, type(e).__name__, e), finding))
        return Outcome(discs, labels, nt)
    if len(got) != 1:
        finding = _kf_framing(framing, kind, f, pdu, uid, 'deliveries')
        if finding is None and len(got) == 0 and proxy.seen == [pdu]:
            finding = _kf_codec(kind, f)      # the framer handed over exactly the PDU; the codec could not decode its own output
        discs.append(Disc('deliveries', '%s %s uid=%d: %d messages delivered for one frame %s' % (framing, kind, uid, len(got), packet.hex()[:100]), finding))
    elif proxy.seen != [pdu]:
        discs.append(Disc('decoder-bytes', '%s %s: decoder was handed %s, PDU is %s' % (framing, kind, [s.hex()[:60] for s in proxy.seen], pdu.hex()[:60]),
                          _kf_framing(framing, kind, f, pdu, uid, 'decoder-bytes')))
    else:
        m = got[0]
        if framing != 'tls' and m.unit_id != uid:
            discs.append(Disc('unit-id', '%s: unit %d delivered as %r' % (framing, uid, m.unit_id)))
        if framing == 'tcp' and (m.transaction_id != tid or m.protocol_id != pid):
            discs.append(Disc('mbap-ids', 'tid/pid %d/%d delivered as %r/%r' % (tid, pid, m.transaction_id, m.protocol_id)))
        if type(m) is not type(msg):
            discs.append(Disc('class', '%s delivered as %s' % (type(msg).__name__, type(m).__name__), _kf_codec(kind, f)))
        else:
            k2, g = kinds.norm(m)
            if not kinds.fields_equal(g, f):
                discs.append(Disc('fields', '%s %s: %r delivered as %r' % (framing, kind, f, g), _kf_codec(kind, f)))
    if len(fr._buffer) != 0 and len(got) == 1:
        labels.append('bytes-left-buffered')     # not part of the property statement: recorded, not judged (C06 sees the consequences)
    return Outcome(discs, labels, nt)
