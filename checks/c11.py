"""C11 Receivers resynchronise after noise and never go deaf."""
from hypothesis import strategies as st

from vlib import frontends, gens, model, pm, refframe, specpdu
from vlib.engine import Disc, Outcome
from checks import c09

PID = 'C11'
RULE = ('Hypothesis: framing rtu / ascii / binary; garbage = 1..4 pieces out of {random bytes 1..40, long random bytes up to '
        '300, a noise burst of 300..3000 bytes (random / one repeated byte / hex characters / an opened frame without any end delimiter), a valid frame with bits flipped, a truncated valid frame (abandoned partial frame), a valid frame for a foreign '
        'unit, bare delimiter characters (: { } CR LF)} delivered in arbitrary chunks, optionally sharing its last read with '
        'the first valid frames; then 70..110 valid frames (Write Single Register, value = running index, so every PDU is '
        'distinct), k=1..3 per read. Receivers: the framer driven like the serial handler does (catch, resetFrame, continue), '
        'the real sync serial request handler, and the asyncio / Twisted stream handlers with the serial framer. Oracle '
        '(bounded recovery as the property states): with e = offset where the garbage ends and L = two maximum-size frames '
        '(rtu 512, ascii 1026, binary 1036 bytes), every valid frame that starts at or after e+L is delivered (server: '
        'answered) exactly once and in order, and len(framer._buffer) after every read that ends beyond e+L stays <= L + that read. Frames inside '
        'the window may be lost. Non-trivial: garbage non-empty and not itself a clean valid frame for the hosted unit; '
        'distinct by SHA-1.')
ASSUMPTIONS = ['RTU: valid frames arrive whole within a read (k frames per read), as frames separated by silent intervals do; on the delimited framings (ascii, binary) the valid traffic is also delivered in arbitrary pieces',
               'an asyncio/Twisted stream handler that closes the connection on a framing error is allowed to (C12); such cases are counted as excluded',
               'binary frames are chosen free of the delimiter bytes that fall under the recorded finding KF-BINARY-FRAMER-DELIMITER-BYTES (0x7D anywhere, 0x7B in the data); every third valid binary frame carries a harmless 0x7B in its CRC']
BUDGET = {'quick': 2500, 'thorough': 8000}
FRAMINGS = ['rtu', 'ascii', 'binary']
WINDOW = {'rtu': 512, 'ascii': 1026, 'binary': 1036}
UID = 0x11


@st.composite
def _piece(draw, framing):
    kind = draw(st.sampled_from(['rand', 'rand', 'long', 'flipped', 'truncated', 'foreign', 'delims', 'huge-header', 'huge-header', 'badbody', 'burst']))
    if kind == 'burst':
        # a long noise burst (a device talking at the wrong speed for a while): 300..3000 bytes, optionally opened by a
        # start delimiter and free of end delimiters, so that a delimited receiver sees one endless frame
        n = draw(st.one_of(st.integers(300, 700), st.integers(300, 3000)))
        flavour = draw(st.sampled_from(['binary', 'open-frame', 'hexish', 'one-byte']))
        if flavour == 'binary':
            body = draw(st.binary(min_size=16, max_size=64))
        elif flavour == 'one-byte':
            body = bytes([draw(st.sampled_from([0x00, 0xFF, 0x55, 0x3A, 0x7B, 0x30, UID]))])
        elif flavour == 'hexish':
            body = draw(st.lists(st.sampled_from(list(b'0123456789ABCDEFabcdef:')), min_size=8, max_size=40).map(bytes))
        else:
            body = bytes(b for b in draw(st.binary(min_size=16, max_size=64)) if b not in (0x0D, 0x0A, 0x7D)) or b'\x01'
        noise = (body * (n // len(body) + 1))[:n]
        if flavour in ('open-frame', 'hexish'):
            noise = {'ascii': b':', 'binary': b'{', 'rtu': bytes([UID, 0x10])}[framing] + noise
        return noise
    if kind == 'badbody':
        # correct checksum around a PDU the decoder chokes on (quantity larger than the data that follows)
        n = draw(st.integers(2, 9))
        bad = bytes([0x10, 0, 1, 0, n, 2, 0, 5])
        return refframe.build(framing, UID, bad)
    pdu = specpdu.encode('req:6', {'address': 1, 'value': draw(st.integers(0, 0xFFFF))})
    if kind == 'rand':
        return draw(st.binary(min_size=1, max_size=40))
    if kind == 'long':
        return draw(st.binary(min_size=40, max_size=300))
    if kind == 'flipped':
        fr = refframe.build(framing, UID, pdu)
        return gens.apply_mutations(fr, [['flip', draw(st.integers(0, 400)), draw(st.integers(0, 7))]])
    if kind == 'truncated':
        fr = refframe.build(framing, UID, pdu)
        return fr[:draw(st.integers(1, len(fr) - 1))]
    if kind == 'foreign':
        if draw(st.booleans()):
            # a longer frame than the valid traffic that follows (sizes remembered from it must not be applied to later frames)
            pdu = specpdu.encode('req:16', {'address': 3, 'registers': draw(st.lists(st.integers(0, 0xFFFF), min_size=1, max_size=8))})
        return refframe.build(framing, draw(st.sampled_from([1, 2, 0x12, 0x3A, 200])), pdu)
    if kind == 'huge-header':
        # start of a frame that announces a long body which never comes
        if framing == 'rtu':
            fc, pos = draw(st.sampled_from([(0x10, 6), (0x0F, 6), (0x17, 10), (0x14, 2), (0x15, 2)]))
            head = bytearray([UID, fc] + [0] * 12)
            head[pos] = draw(st.one_of(st.integers(0xF0, 0xFF), st.integers(0x80, 0xFF)))
            return bytes(head[:pos + 1]) + draw(st.binary(min_size=0, max_size=6))
        if framing == 'ascii':
            return b':' + draw(st.binary(min_size=0, max_size=10)).hex().upper().encode()
        return b'{' + bytes([UID, 0x10]) + draw(st.binary(min_size=0, max_size=10)).replace(b'}', b'|')
    return bytes(draw(st.lists(st.sampled_from([0x3A, 0x7B, 0x7D, 0x0D, 0x0A, 0x30, 0x46]), min_size=1, max_size=6)))


@st.composite
def _case(draw):
    framing = draw(st.sampled_from(FRAMINGS))
    garbage = b''.join(draw(st.lists(_piece(framing), min_size=1, max_size=4)))
    return {'framing': framing, 'garbage': garbage.hex(), 'gcut': draw(gens.cuts()), 'join': draw(st.booleans()),
            'nvalid': draw(st.integers(70, 110)), 'k': draw(st.integers(1, 3)),
            # delimited framings only: the valid traffic itself arrives in arbitrary pieces (frames split across reads)
            'vcut': draw(st.one_of(st.none(), st.none(), st.tuples(st.just('every'), st.integers(1, 23)).map(list))),
            'receiver': draw(st.sampled_from(['framer', 'framer', 'sync_serial', 'sync_serial', 'aio_tcp', 'tw_tcp'])),
            # reads that time out and return nothing (serial port), anywhere in the history; dropped for the socket-style receivers
            'empties': draw(st.one_of(st.just([]), st.lists(st.integers(0, 200), min_size=1, max_size=5)))}


def strategy(tier):
    return _case()


_VF = {}


def valid_frames(framing, n):
    if (framing, n) not in _VF:
        _VF[(framing, n)] = _valid_frames(framing, n)
    return list(_VF[(framing, n)])


def _valid_frames(framing, n):
    out = []
    v = 0
    special = []
    if framing == 'binary':
        # valid frames with a start-delimiter byte 0x7B in the CRC position (harmless on receive, see refframe.binary_fragile):
        # every third valid frame is one of them
        for a in range(1, 0x10000):
            pdu = specpdu.encode('req:6', {'address': 2, 'value': a})
            fr = refframe.build(framing, UID, pdu)
            if 0x7B in fr[-3:-1] and not refframe.binary_fragile(fr):
                special.append((fr, pdu))
                if len(special) * 3 >= n + 3:
                    break
    while len(out) < n:
        if special and len(out) % 3 == 1:
            out.append(special.pop(0))
            continue
        v += 1
        pdu = specpdu.encode('req:6', {'address': 2, 'value': v})
        fr = refframe.build(framing, UID, pdu)
        if framing == 'binary' and refframe.binary_fragile(fr):
            continue
        out.append((fr, pdu))
    return out


def run_case(case):
    framing = case['framing']
    garbage = bytes.fromhex(case['garbage'])
    labels = ['framing:' + framing, 'receiver:' + case['receiver'], 'k:%d' % case['k']]
    vf = valid_frames(framing, case['nvalid'] + (60 if framing == 'binary' else 0))
    reads = [c for c in gens.apply_cuts(garbage, case['gcut']) if c]
    groups = [vf[i:i + case['k']] for i in range(0, len(vf), case['k'])]
    valid_reads = [b''.join(f for f, _ in g) for g in groups]
    if case.get('vcut') and framing in ('ascii', 'binary'):
        valid_reads = [c for c in gens.apply_cuts(b''.join(f for f, _ in vf), case['vcut']) if c]
        labels.append('valid-frames-split-across-reads')
    if case['join'] and reads:
        reads[-1] = reads[-1] + valid_reads[0]
        valid_reads = valid_reads[1:]
    reads = reads + valid_reads
    # through the serial handler an empty read (time-out) is only placed where valid frames arrive whole (the property's schedules:
    # "valid frames, one per read and several per read"); what a handler does with a frame that is cut by a time-out is its policy
    if case.get('empties') and (case['receiver'] == 'framer' or (case['receiver'] == 'sync_serial' and not (case.get('vcut') and framing in ('ascii', 'binary')))):
        for pos_ in sorted(case['empties'], reverse=True):
            reads.insert(pos_ % (len(reads) + 1), b'')
        labels.append('empty-reads')
    e = len(garbage)
    L = WINDOW[framing]
    # offsets of valid frames in the whole stream
    starts = []
    off = e
    for f, pdu in vf:
        starts.append(off)
        off += len(f)
    must = [pdu for (f, pdu), s in zip(vf, starts) if s >= e + L]
    clean = False
    try:
        p = refframe.parse_one(framing, garbage)
        clean = p['uid'] == UID
    except refframe.FrameError:
        pass
    nt = len(garbage) > 0 and not clean
    discs = []
    if case['receiver'] == 'framer':
        proxy = pm.RecordingDecoder(pm.decoder('req'))
        fr = pm.framer_class(framing)(proxy)
        maxbuf = 0
        fed = 0
        for r in reads:
            try:
                fr.processIncomingPacket(r, lambda m: None, [UID], single=False)
            except Exception:
                try:
                    fr.resetFrame()
                except Exception as e2:
                    # the recovery action of every handler itself fails: the receiver stays poisoned
                    discs.append(Disc('reset-raises', '%s: resetFrame() raised %s: %s with %d bytes buffered' % (framing, type(e2).__name__, e2, len(fr._buffer))))
                    break
            fed += len(r)
            # "stays bounded while valid frames keep arriving": judged once a recovery window of valid traffic has arrived
            if fed >= e + L and len(fr._buffer) > L + len(r):
                discs.append(Disc('backlog-unbounded', '%s: %d bytes buffered after a read of %d (bound %d)' % (framing, len(fr._buffer), len(r), L + len(r))))
                break
            maxbuf = max(maxbuf, len(fr._buffer))
        delivered = [s for s in proxy.seen]
    else:
        pm.reset_globals()
        ctx = c09.make_context(False, [UID], c09.SMALL_LAYOUT)
        res = frontends.run(case['receiver'], framing, ctx, [(0, r) for r in reads])
        pm.reset_globals()
        if res.closed.get(0) and case['receiver'] != 'sync_serial':
            return Outcome([], labels + ['excluded-stream-handler-closed-connection'], False)
        for c, x in res.escaped:
            if not x.startswith('reactor-handled'):
                discs.append(Disc('escaped', '%s/%s: %s' % (case['receiver'], framing, x)))
        delivered = []
        for s in res.sent.get(0, []):
            try:
                for p in refframe.parse_many(framing, s):
                    delivered.append(p['pdu'])
            except refframe.FrameError:
                pass
    if not discs:
        # every must-frame exactly once, in order
        idx = 0
        seq = [d for d in delivered if d in set(must)]
        if seq != must:
            missing = [m for m in must if m not in seq]
            dup = [m for m in set(seq) if seq.count(m) > 1]
            first_ok = None
            for i, (f, pdu) in enumerate(vf):
                if pdu in delivered:
                    first_ok = i
                    break
            discs.append(Disc('not-resynchronised', '%s via %s: garbage %s (%d bytes), %d valid frames %d per read: %d of the %d frames beyond the recovery window '
                                                    'were not delivered exactly once in order (missing %d, duplicated %d); first valid frame delivered: #%r of %d' % (
                                                        framing, case['receiver'], case['garbage'][:60], e, len(vf), case['k'], len(missing) + len(dup), len(must),
                                                        len(missing), len(dup), first_ok, len(vf))))
    if not must:
        labels.append('no-frame-beyond-window')
    return Outcome(discs, labels, nt and bool(must))


def extra_stages(tier, seed):
    from vlib import engine
    seeds = []
    for i, framing in enumerate(FRAMINGS):
        pdu = specpdu.encode('req:6', {'address': 1, 'value': 0x0102})
        fr = refframe.build(framing, UID, pdu)
        seeds += [bytes([i, 0, 0]) + fr[:-1], bytes([i, 1, 3]) + fr[1:], bytes([i, 0, 2]) + refframe.build(framing, 0x12, pdu), bytes([i, 2, 1]) + b':{}\r\n' + fr[:5]]
    return engine.atheris_stage(PID, tier, seed, 1000 if tier == 'quick' else 60000, seeds, max_len=320)
