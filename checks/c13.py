"""C13 Client transactions end in bounded time with a result and recover."""
import os

from hypothesis import strategies as st

from vlib import gens, kinds, pm, refframe, specpdu, transports
from vlib.engine import Disc, Outcome
from checks import c08

PID = 'C13'
RULE = ('Hypothesis: client kind (tcp, serial rtu / ascii / binary, udp, RTU- and ASCII-framer over TCP) x retry settings (retries 0..3, retry_on_empty, '
        'retry_on_invalid, backoff) x request kind x a fault script with one behaviour per transmission (full reply, exception '
        'reply, nothing, first k bytes, garbage, a well-framed reply with an undecodable PDU, reply for another unit, stale reply of another transaction, late reply '
        'delivered after the timeout, OSError on send, OSError on receive, peer close) of length <= 5, followed by a healthy '
        'follow-up transaction; all in virtual time. Oracle: the call returns (transport-operation budget not exhausted, '
        'virtual duration within a generous bound) without raising, transmits at most 1+retries request '
        'frames, honours retry_on_empty / retry_on_invalid when a valid reply is scripted within the budget after only empty / '
        'foreign attempts, and the follow-up over the now healthy transport returns its own correct reply (values unique per '
        'transaction). Sweep: ALL scripts of length <= 2 (thorough: 3) over the behaviours x retry settings x client kinds. '
        'Non-trivial: >=1 faulty transmission; distinct by SHA-1. Serial clients are also built with generated options: handle_local_echo on a line that echoes every written byte, strict on/off, baud rate 9600..115200. Further generated: OS errors of several errnos, foreign-unit frames longer than the predicted reply, broadcast writes, an unencodable request or 1..3 unanswered calls before the judged one (each bounded), a transaction-id counter about to wrap, serial options.')
ASSUMPTIONS = ['failure to establish a connection is excepted by the property: the fake transport always connects',
               'virtual time: every wait happens on the harness clock; a transport-operation budget of 100000 stands for "hangs"',
               'binary transactions whose frames contain delimiter bytes are excluded (KF-BINARY-FRAMER-DELIMITER-BYTES)']
BUDGET = {'quick': 8000, 'thorough': 12000}
CLIENTS = ['tcp', 'rtu', 'ascii', 'binary', 'udp', 'tcp+rtu', 'tcp+ascii']     # the TLS client is outside the property's quantifier (see DESIGN 6)
BEHAVIOURS = ['reply', 'exc', 'nothing', 'partial', 'garbage', 'wrong_unit', 'stale', 'late', 'oserror_send', 'oserror_recv', 'close', 'undecodable', 'wrong_unit_long']


def framing_of(c):
    return {'tcp': 'tcp', 'udp': 'tcp', 'rtu': 'rtu', 'ascii': 'ascii', 'binary': 'binary', 'tcp+rtu': 'rtu', 'tcp+ascii': 'ascii', 'tls': 'tls'}[c]


@st.composite
def _case(draw):
    client = draw(st.sampled_from(CLIENTS))
    script = []
    for _ in range(draw(st.integers(1, 5))):
        b = draw(st.sampled_from(BEHAVIOURS))
        if b in ('oserror_send', 'oserror_recv'):
            # errno of the OS error: broken pipe / connection reset (ConnectionError subclasses), host unreachable, I/O error, bad descriptor, timed out
            script.append([b, draw(st.sampled_from([32, 104, 113, 5, 9, 110]))])
        elif b == 'partial':
            script.append(['partial', draw(st.integers(1, 12))])
        elif b == 'garbage':
            script.append(['garbage', draw(st.one_of(st.binary(min_size=1, max_size=20), st.sampled_from([b':zz', b':0103zz\r\n', b'{}', b'\x00' * 9]))).hex()])
        else:
            script.append([b])
    k, f = draw(c08._request())
    k2, f2 = draw(c08._request())
    return {'client': client, 'retries': draw(st.integers(0, 3)), 'retry_on_empty': draw(st.booleans()),
            'retry_on_invalid': draw(st.booleans()), 'backoff': draw(st.sampled_from([0.3, 0.3, 0.1, 1.0])),
            'unit': draw(st.integers(1, 247)), 'kind': k, 'fields': f, 'script': script, 'follow': [k2, f2],
            'serial': draw(transports.serial_options()) if client in ('rtu', 'ascii', 'binary') else {},
            # the judged request is a broadcast write (client built with broadcast_enable=True, unit 0): nobody answers
            'bcast': draw(st.sampled_from([False] * 6 + [True])),
            # before the judged transaction the application issues a request it filled in wrongly (cannot be encoded):
            # whatever that call does (raise, error object), the client must be ready for the next call
            'pre_bad': draw(st.sampled_from([None] * 7 + ['value-too-large', 'too-many-registers'])),
            # calls made before the judged one that the peer does not answer at all: each of them is bounded like any other call
            'earlier_failures': draw(st.sampled_from([0, 0, 0, 0, 1, 2, 3])),
            # the client has been in use for a while: its transaction-id counter is about to wrap
            'tid_start': draw(st.sampled_from([0, 0, 0, 65533, 65534, 65535])),
            # explicit life-cycle calls of the application before the judged call and before the follow-up (repeated calls are legal)
            'lifecycle': draw(st.sampled_from([None, None, None, ['connect'], ['connect', 'connect'], ['connect', 'close'], ['close', 'close'],
                                               ['connect', 'close', 'close', 'connect']]))}


def strategy(tier):
    return _case()


def sweeps(tier):
    import itertools
    cases = []
    beh = [['reply'], ['exc'], ['nothing'], ['partial', 3], ['garbage', 'deadbeef00112233445566'], ['wrong_unit'], ['stale'], ['late'],
           ['oserror_send'], ['oserror_recv'], ['close'], ['undecodable'], ['wrong_unit_long'], ['oserror_send', 113], ['oserror_recv', 5]]
    settings = [(0, False, False), (3, False, False), (2, True, False), (2, False, True), (1, True, True), (0, True, True), (3, True, True)]
    maxlen = 3 if tier == 'thorough' else 2
    for client in CLIENTS:
        for (r, e, i) in settings:
            for n in range(1, maxlen + 1):
                for sc in itertools.product(beh, repeat=n):
                    cases.append({'client': client, 'retries': r, 'retry_on_empty': e, 'retry_on_invalid': i, 'backoff': 0.3, 'unit': 17,
                                  'kind': 'req:3', 'fields': {'address': 2, 'quantity': 3}, 'script': [list(x) for x in sc],
                                  'follow': ['req:4', {'address': 7, 'quantity': 2}]})
    return [('all-fault-scripts-up-to-length-%d' % maxlen, cases, True)]


class FaultPeer(transports.Peer):
    def __init__(self, framing, script, timeout):
        transports.Peer.__init__(self)
        self.framing = framing
        self.script = list(script)
        self.timeout = timeout
        self.seq = 0
        self.healthy = False
        self.read_error = False
        self.expected = {}      # seq -> reply pdu the conformant server gave for that transmission
        self.bad_request = None
        self.delim_seen = False

    def on_write(self, conn, data):
        items = self._on_write(conn, data)
        if self.framing == 'binary':
            for it in items:
                if it[0] != 'close' and len(it[1]) > 6 and refframe.binary_fragile(it[1]):
                    self.delim_seen = True
        return items

    def _on_write(self, conn, data):
        if getattr(self, 'mute', False):
            self.muted = getattr(self, 'muted', 0) + 1
            return []
        self.seq += 1
        try:
            p = refframe.parse_one(self.framing, data)
        except refframe.FrameError as e:
            self.bad_request = (data, str(e))
            return []
        uid, tid, rpdu = p['uid'], p['tid'] or 0, p['pdu']
        beh = ['reply'] if self.healthy or not self.script else self.script.pop(0)
        if self.framing == 'tls' and beh[0] in ('wrong_unit', 'wrong_unit_long', 'stale'):
            beh = ['nothing']          # a TLS record carries neither unit nor transaction id
        self.last_behaviour = beh[0]
        good = transports.reply_pdu(rpdu, self.seq)
        frame = refframe.build(self.framing, uid, good, tid, 0)
        if self.framing == 'binary' and refframe.binary_fragile(frame):
            self.delim_seen = True
        if beh[0] == 'reply':
            self.expected[self.seq] = good
            return [(0.0, frame)]
        if beh[0] == 'exc':
            self.expected[self.seq] = bytes([rpdu[0] | 0x80, 2])
            return [(0.0, refframe.build(self.framing, uid, self.expected[self.seq], tid, 0))]
        if beh[0] == 'nothing':
            return []
        if beh[0] == 'partial':
            return [(0.0, frame[:min(beh[1], len(frame) - 1)])]
        if beh[0] == 'garbage':
            return [(0.0, bytes.fromhex(beh[1]))]
        if beh[0] == 'wrong_unit':
            return [(0.0, refframe.build(self.framing, (uid % 247) + 1, good, tid, 0))]
        if beh[0] == 'wrong_unit_long':
            # traffic of another unit on a shared line: a well-formed frame that is longer than the reply this request predicts
            other = specpdu.encode('rsp:3', {'registers': [(self.seq * 31 + i) & 0xFFFF for i in range(11 + self.seq % 5)]})
            return [(0.0, refframe.build(self.framing, (uid % 247) + 1, other, tid, 0))]
        if beh[0] == 'stale':
            return [(0.0, refframe.build(self.framing, uid, transports.reply_pdu(rpdu, self.seq + 500), (tid + 7) & 0xFFFF, 0))]
        if beh[0] == 'undecodable':
            # perfectly framed reply for this unit / transaction whose PDU no decoder knows (function 0x41)
            body = bytes([0x41, self.seq & 0xFF])
            if self.framing == 'rtu':
                body = bytes([0x41]) + bytes([self.seq & 0xFF])     # unknown functions are sized as 5-byte RTU frames
            return [(0.0, refframe.build(self.framing, uid, body, tid, 0))]
        if beh[0] == 'late':
            return [(self.timeout * 1.5 + 0.01, frame)]
        if beh[0] == 'oserror_send':
            raise OSError(beh[1] if len(beh) > 1 else 32, os.strerror(beh[1] if len(beh) > 1 else 32))
        if beh[0] == 'oserror_recv':
            self.read_error = beh[1] if len(beh) > 1 else 104
            return []
        if beh[0] == 'close':
            return [('close', 0.0)]
        return []

    def on_read_error(self, conn):
        if self.read_error:
            no, self.read_error = self.read_error, False
            return OSError(no, os.strerror(no))
        return None


def _mk_client(kind, case, w=None):
    from pymodbus.client.sync import ModbusTcpClient, ModbusSerialClient, ModbusUdpClient
    kw = dict(retries=case['retries'], retry_on_empty=case['retry_on_empty'], retry_on_invalid=case['retry_on_invalid'],
              backoff=case['backoff'], timeout=1)
    if case.get('bcast'):
        kw['broadcast_enable'] = True
    if kind == 'tcp':
        return ModbusTcpClient('peer', 502, **kw)
    if kind == 'udp':
        return ModbusUdpClient('peer', 502, **kw)
    if kind == 'tls':
        from pymodbus.client.sync import ModbusTlsClient
        return ModbusTlsClient('peer', 802, sslctx=transports.FakeTlsContext(), **kw)
    if kind in ('tcp+rtu', 'tcp+ascii'):
        from pymodbus.transaction import ModbusRtuFramer, ModbusAsciiFramer
        return ModbusTcpClient('peer', 502, framer=ModbusRtuFramer if kind == 'tcp+rtu' else ModbusAsciiFramer, **kw)
    kw.update(transports.serial_kwargs(w, case.get('serial')))
    return ModbusSerialClient(method=kind, port='/dev/null', **kw)


def run_case(case):
    from pymodbus.exceptions import ModbusIOException
    from pymodbus.pdu import ModbusResponse
    pm.reset_globals()
    ckind = case['client']
    framing = framing_of(ckind)
    labels = ['client:' + ckind, 'retries:%d' % case['retries'], 'roe:%s' % case['retry_on_empty'], 'roi:%s' % case['retry_on_invalid']]
    labels += ['b:' + b[0] for b in case['script']]
    discs = []
    if case.get('bcast'):
        if case['kind'] not in ('req:5', 'req:6', 'req:15', 'req:16', 'req:22'):
            case = dict(case, kind='req:6', fields={'address': 9, 'value': 0x1234})
        case = dict(case, script=[['nothing']])
        labels.append('broadcast')
    rpdu = specpdu.encode(case['kind'], case['fields'])
    fpdu = specpdu.encode(*case['follow'])
    if framing == 'binary':
        for p_ in (rpdu, fpdu):
            if refframe.binary_fragile(refframe.build('binary', case['unit'], p_)):
                return Outcome([], labels + ['excluded-binary-delimiter'], False)
    peer = FaultPeer(framing, case['script'], 1.0)
    nt = any(b[0] not in ('reply',) for b in case['script'])
    with transports.World(peer) as w:
        client = _mk_client(ckind, case, w)
        if case.get('tid_start'):
            client.transaction.tid = case['tid_start']
            labels.append('tid-near-wrap')

        def lifecycle():
            for op_ in case.get('lifecycle') or []:
                try:
                    getattr(client, op_)()
                except transports.StepBudgetExceeded:
                    raise
                except Exception as e_:
                    discs.append(Disc('raises', '%s: client.%s() raised %s: %s' % (ckind, op_, type(e_).__name__, e_)))
        if case.get('lifecycle'):
            labels.append('explicit-connect-close')
            lifecycle()
        if case.get('pre_bad'):
            from pymodbus.register_write_message import WriteSingleRegisterRequest, WriteMultipleRegistersRequest
            labels.append('unencodable-request-first')
            bad = WriteSingleRegisterRequest(1, 0x10000, unit=case['unit']) if case['pre_bad'] == 'value-too-large' else \
                WriteMultipleRegistersRequest(1, [0] * 200, unit=case['unit'])
            try:
                client.execute(bad)
                w.flush_writes()
            except transports.StepBudgetExceeded as e:
                discs.append(Disc('no-termination', '%s: an unencodable request: %s' % (ckind, e)))
            except Exception:
                pass                      # a caller error may raise
            peer.seq = 0
            peer.written[:] = []
        if case.get('serial'):
            labels.append('serial-opts:' + ','.join('%s=%s' % kv for kv in sorted(case['serial'].items())))
        bound = (2 + case['retries']) * (3 * 1.0 + 1.0) + case['backoff'] * (2 ** (case['retries'] + 2))
        for k_ in range(case.get('earlier_failures') or 0):
            peer.mute, peer.muted = True, 0
            t1 = w.clock.t
            try:
                client.execute(kinds.build('req:3', {'address': k_, 'quantity': 1}, unit=case['unit']))
                w.flush_writes()
            except transports.StepBudgetExceeded as e:
                discs.append(Disc('no-termination', '%s: unanswered call %d: %s' % (ckind, k_ + 1, e)))
            except Exception as e:
                discs.append(Disc('raises', '%s: unanswered call %d raised %s: %s' % (ckind, k_ + 1, type(e).__name__, e)))
            if not discs and w.clock.t - t1 > bound:
                discs.append(Disc('too-slow', '%s settings %r: the %d. unanswered call in a row took %.2fs of virtual time (bound %.2fs; the first took less)' % (
                    ckind, _settings(case), k_ + 1, w.clock.t - t1, bound)))
            if not discs and peer.muted > 1 + case['retries']:
                discs.append(Disc('too-many-transmissions', '%s settings %r: unanswered call %d was transmitted %d times' % (ckind, _settings(case), k_ + 1, peer.muted)))
            peer.mute = False
            peer.written[:] = []
            w.clock.sleep(2.0)
            if discs:
                break
            labels.append('after-unanswered-calls')
        t0 = w.clock.t
        req = kinds.build(case['kind'], case['fields'], unit=0 if case.get('bcast') else case['unit'])
        result = None
        try:
            result = client.execute(req)
            w.flush_writes()
        except transports.StepBudgetExceeded as e:
            discs.append(Disc('no-termination', '%s script %r settings %r: %s' % (ckind, case['script'], _settings(case), e)))
        except Exception as e:
            discs.append(Disc('raises', '%s script %r settings %r: the call raised %s: %s' % (ckind, case['script'], _settings(case), type(e).__name__, e),
                              _kf_raise(ckind, case, e)))
        dur = w.clock.t - t0
        sent = list(peer.written)
        nsent = peer.seq
        if not discs:
            if peer.bad_request:
                discs.append(Disc('request-frame', 'client wrote %s: %s' % (peer.bad_request[0].hex()[:60], peer.bad_request[1])))
            limit = 1 + case['retries']
            if nsent > limit:
                discs.append(Disc('too-many-transmissions', '%s script %r settings %r: %d transmissions, at most 1+retries = %d allowed' % (
                    ckind, case['script'], _settings(case), nsent, limit), _kf_retry(case, nsent)))
            if len(set(sent)) > 1:
                labels.append('retransmission-differs')      # the property bounds the number of transmissions, not their bytes
            bound = (2 + case['retries']) * (3 * 1.0 + 1.0) + case['backoff'] * (2 ** (case['retries'] + 2))
            if dur > bound:
                discs.append(Disc('too-slow', '%s script %r: virtual duration %.2fs exceeds the bound %.2fs' % (ckind, case['script'], dur, bound)))
            if case.get('bcast'):
                # nobody answers a broadcast: the property only demands the transmission bound, the time bound (both judged above),
                # a result instead of an exception, and a client that is ready for the next call (judged below)
                if result is None:
                    discs.append(Disc('broadcast', '%s: a broadcast write returned None after %d transmissions' % (ckind, nsent)))
            elif not isinstance(result, (ModbusIOException, ModbusResponse)):
                discs.append(Disc('result-type', '%s script %r: returned %r (neither a response nor an error object)' % (ckind, case['script'], result)))
        # retry semantics
        if not discs and not case.get('bcast'):
            beh = [b[0] for b in case['script']]
            for flag, fault in (('retry_on_empty', ('nothing',)), ('retry_on_invalid', ('wrong_unit', 'wrong_unit_long'))):
                j = 0
                while j < len(beh) and beh[j] in fault:
                    j += 1
                if case[flag] and 0 < j <= case['retries'] and j < len(beh) and beh[j] in ('reply', 'exc'):
                    labels.append('retry-expected:' + flag)
                    want = peer.expected.get(j + 1)
                    got = _pdu_of(result)
                    if want is None or got != want:
                        discs.append(Disc('retry-not-honoured', '%s settings %r script %r: a valid reply was available at transmission %d (<= 1+retries) but the call returned %r after %d transmissions' % (
                            ckind, _settings(case), case['script'], j + 1, result, nsent), _kf_retry(case, nsent)))
            if beh and beh[0] in ('reply', 'exc'):
                want = peer.expected.get(1)
                if _pdu_of(result) != want:
                    discs.append(Disc('first-reply-not-returned', '%s: conformant reply at the first transmission but the call returned %r' % (ckind, result)))
        # follow-up on a healthy transport
        if not discs:
            peer.healthy = True
            peer.script = []
            n0 = peer.seq
            w.clock.sleep(3.0)        # the line is idle for a while: anything late has arrived by now
            lifecycle()
            try:
                freq = kinds.build(case['follow'][0], case['follow'][1], unit=case['unit'])
                fres = client.execute(freq)
                want = None
                for s in range(n0 + 1, peer.seq + 1):
                    want = peer.expected.get(s, want)
                if _pdu_of(fres) != want or want is None:
                    discs.append(Disc('no-recovery', '%s after script %r (settings %r): the follow-up transaction over a healthy transport returned %r instead of its own reply' % (
                        ckind, case['script'], _settings(case), fres), _kf_recovery(ckind, case)))
            except transports.StepBudgetExceeded as e:
                discs.append(Disc('no-termination', '%s follow-up after %r: %s' % (ckind, case['script'], e)))
            except Exception as e:
                discs.append(Disc('raises', '%s follow-up after script %r raised %s: %s' % (ckind, case['script'], type(e).__name__, e), _kf_raise(ckind, case, e)))
    pm.reset_globals()
    if peer.delim_seen:
        return Outcome([], labels + ['excluded-binary-delimiter'], False)
    return Outcome(discs, labels, nt)


def _pdu_of(result):
    from pymodbus.pdu import ModbusResponse
    if isinstance(result, ModbusResponse):
        try:
            return bytes([result.function_code]) + result.encode()
        except Exception:
            return None
    return None


def _settings(case):
    return (case['retries'], case['retry_on_empty'], case['retry_on_invalid'])


def _kf_raise(ckind, case, e):
    return None


def _kf_retry(case, nsent):
    return None


def _kf_recovery(ckind, case):
    return None
