"""C19 Payload builder and decoder agree for every byte and word order."""
import math
import struct

from hypothesis import strategies as st

from vlib.engine import Disc, Outcome

PID = 'C19'
RULE = ('Hypothesis: sequences of 1..12 typed values (u/i 8/16/32/64 over full range with '
        'extremes, f16/f32/f64 given as IEEE bit patterns incl. subnormal/inf/NaN/-0, bit groups '
        '1..16, byte strings 1..9 bytes, text strings incl. non-ASCII (stored as UTF-8)) x 4 byte/word orders x transport as raw bytes and as registers; '
        'oracle = exact round trip + independent layout function; histories also look at the builder between additions '
        '(build/to_registers/to_string must not change what is built later), re-use the builder after reset(), step over '
        'items with skip_bytes and decode a second time after the decoder\'s reset(). Non-trivial: some 32/64-bit item '
        'whose expected image differs from plain network order (order actually mattered) or odd '
        'total length; distinct by SHA-1 of the case. A sweep places values next to each other that compare equal across type, sign or width (1 / 1.0, 0.0 / -0.0, u16 5 / u32 5).')
ASSUMPTIONS = ['struct.pack of a float at its own width is the IEEE-754 reference encoding',
               'NaN values are compared by isnan (payload preservation is a property of the C cast, not of pymodbus)']
BUDGET = {'quick': 4000, 'thorough': 25000}

INTS = {'u8': (1, False), 'i8': (1, True), 'u16': (2, False), 'i16': (2, True),
        'u32': (4, False), 'i32': (4, True), 'u64': (8, False), 'i64': (8, True)}
FLOATS = {'f16': (2, 'e'), 'f32': (4, 'f'), 'f64': (8, 'd')}


def _int_strategy(name):
    size, signed = INTS[name]
    bits = size * 8
    lo, hi = (-(1 << (bits - 1)), (1 << (bits - 1)) - 1) if signed else (0, (1 << bits) - 1)
    # extremes, a value with all bytes different, values whose 16-bit words (or bytes) repeat
    edge = st.sampled_from(sorted(set([lo, hi, 0, 1, hi - 1, lo + 1, hi // 2, 0x0102030405060708 & hi, 0x1234123412341234 & hi, 0x7F7F7F7F7F7F7F7F & hi,
                                       0x00FF00FF00FF00FF & hi, 0x0100010001000100 & hi])))
    return st.tuples(st.just(name), st.one_of(st.integers(lo, hi), edge))


def _float_strategy(name):
    size, _ = FLOATS[name]
    bits = size * 8
    return st.tuples(st.just(name), st.integers(0, (1 << bits) - 1))


def _item():
    alts = [_int_strategy(n) for n in INTS] + [_float_strategy(n) for n in FLOATS]
    alts.append(st.tuples(st.just('bits'), st.lists(st.booleans(), min_size=1, max_size=16)))
    alts.append(st.tuples(st.just('str'), st.binary(min_size=1, max_size=9).map(lambda b: b.hex())))
    alts.append(st.tuples(st.just('text'), st.text(alphabet=st.characters(min_codepoint=32, max_codepoint=126),
                                                   min_size=1, max_size=9)))
    alts.append(st.tuples(st.just('text'), st.text(alphabet=st.characters(blacklist_categories=('Cs',), min_codepoint=1, max_codepoint=0x2FFF),
                                                   min_size=1, max_size=6)))
    return st.one_of(alts).map(list)


def strategy(tier):
    return st.fixed_dictionaries({
        'bo': st.sampled_from(['<', '>']),
        'wo': st.sampled_from(['<', '>']),
        'via': st.sampled_from(['bytes', 'regs']),
        'items': st.lists(_item(), min_size=1, max_size=12),
        # after which items the caller looks at the builder (build / to_registers / to_string) before adding more
        'peek': st.lists(st.integers(0, 11), min_size=0, max_size=3),
        # builder re-used: everything added before item k is thrown away with reset()
        'reset_at': st.one_of(st.none(), st.none(), st.integers(1, 6)),
        # decoder side: items stepped over with skip_bytes instead of being decoded; a second pass after reset()
        'skip': st.lists(st.sampled_from([False, False, False, True]), min_size=0, max_size=12),
        'second_pass': st.booleans(),
    })


def sweeps(tier):
    cases = []
    for bo in '<>':
        for wo in '<>':
            for via in ('bytes', 'regs'):
                for name, (size, signed) in sorted(INTS.items()):
                    bits = size * 8
                    lo, hi = (-(1 << (bits - 1)), (1 << (bits - 1)) - 1) if signed else (0, (1 << bits) - 1)
                    for v in sorted(set([lo, hi, 0, 1, -1 if signed else 2, 0x0102030405060708 & hi, 0x1234123412341234 & hi, 0x00FF00FF00FF00FF & hi])):
                        cases.append({'bo': bo, 'wo': wo, 'via': via, 'items': [[name, v]]})
                        cases.append({'bo': bo, 'wo': wo, 'via': via, 'items': [['u8', 7], [name, v], ['u16', 0xABCD]]})
                for name, (size, _) in sorted(FLOATS.items()):
                    bits = size * 8
                    for v in (0, 1, 1 << (bits - 1), (1 << bits) - 1, 0x3C00 if bits == 16 else (0x3F800000 if bits == 32 else 0x3FF0000000000000),
                              0x0102030405060708 & ((1 << bits) - 1)):
                        cases.append({'bo': bo, 'wo': wo, 'via': via, 'items': [[name, v]]})
    out = [('each-type-alone-x-orders-x-boundaries', cases, False)]
    # long payloads (the 256th item, the 1000th byte): every type in rotation
    names = sorted(INTS) + sorted(FLOATS) + ['bits', 'str']
    long_cases = []
    for bo in '<>':
        for wo in '<>':
            for via in ('bytes', 'regs'):
                items = []
                for i in range(400):
                    nme = names[i % len(names)]
                    if nme in INTS:
                        size, signed = INTS[nme]
                        v = (i * 0x0101010101010101 + i) & ((1 << (size * 8 - (1 if signed else 0))) - 1)
                        items.append([nme, -v - 1 if signed and i % 2 else v])
                    elif nme in FLOATS:
                        items.append([nme, (i * 2654435761) & ((1 << (FLOATS[nme][0] * 8)) - 1)])
                    elif nme == 'bits':
                        items.append(['bits', [bool((i >> j) & 1) for j in range(8)]])
                    else:
                        items.append(['str', ('%02x' % (i & 0xFF)) * (1 + i % 3)])
                long_cases.append({'bo': bo, 'wo': wo, 'via': via, 'items': items})
    out.append(('long-payloads-of-400-items', long_cases, False))
    # neighbours that compare equal in Python although they differ in type, sign or width (1 == 1.0 == True, 0.0 == -0.0):
    # int then float of the same width and the other way round, signed / unsigned twins, the same number in two widths
    twins = []
    fpat = lambda name, x: int.from_bytes(struct.pack('>' + FLOATS[name][1], float(x)), 'big')
    for bits, u, i_, fl in ((16, 'u16', 'i16', 'f16'), (32, 'u32', 'i32', 'f32'), (64, 'u64', 'i64', 'f64')):
        for n in (0, 1, 2, 100, 1024):
            for a, b in (([u, n], [fl, fpat(fl, n)]), ([fl, fpat(fl, n)], [i_, n]), ([i_, n], [u, n]), ([u, n], [i_, n])):
                twins.append([a, b])
        for n in (-1, -3, -1024):
            twins.append([[i_, n], [fl, fpat(fl, n)]])
            twins.append([[fl, fpat(fl, n)], [i_, n]])
        twins.append([[fl, 0], [fl, 1 << (bits - 1)]])      # 0.0 then -0.0
        twins.append([[fl, 1 << (bits - 1)], [fl, 0]])
        twins.append([[fl, 0], [fl, 1 << (bits - 1)], [u, 0], [fl, 0]])
    for a, b in (('u8', 'u16'), ('u16', 'u32'), ('u32', 'u64'), ('i16', 'i64'), ('u8', 'i8')):
        for n in (0, 1, 100):
            twins.append([[a, n], [b, n], [a, n]])
    twins.append([['u8', 1], ['bits', [True]], ['u16', 1], ['f16', fpat('f16', 1)], ['u16', 1]])
    twin_cases = [{'bo': bo, 'wo': wo, 'via': via, 'items': [list(x) for x in items]}
                  for bo in '<>' for wo in '<>' for via in ('bytes', 'regs') for items in twins]
    out.append(('numerically-equal-neighbours', twin_cases, False))
    return out


def _fval(name, pattern):
    size, ch = FLOATS[name]
    return struct.unpack('>' + ch, pattern.to_bytes(size, 'big'))[0]


def _reorder(net, bo, wo):
    words = [net[i:i + 2] for i in range(0, len(net), 2)]
    if wo == '<':
        words = words[::-1]
    if bo == '<':
        words = [w[::-1] for w in words]
    return b''.join(words)


def _expected_image(item, bo, wo):
    kind, v = item
    if kind in INTS:
        size, signed = INTS[kind]
        net = int(v).to_bytes(size, 'big', signed=signed)
        if size == 1:
            return net
        return _reorder(net, bo, wo)
    if kind in FLOATS:
        size, ch = FLOATS[kind]
        net = struct.pack('>' + ch, _fval(kind, v))
        return _reorder(net, bo, wo)
    if kind == 'bits':
        out = bytearray()
        for i in range(0, len(v), 8):
            b = 0
            for j, bit in enumerate(v[i:i + 8]):
                if bit:
                    b |= 1 << j
            out.append(b)
        return bytes(out)
    if kind == 'str':
        return bytes.fromhex(v)
    if kind == 'text':
        return v.encode()
    raise ValueError(kind)


def run_case(case):
    from pymodbus.payload import BinaryPayloadBuilder, BinaryPayloadDecoder
    bo, wo, via, items = case['bo'], case['wo'], case['via'], case['items']
    discs = []
    labels = ['order:' + bo + wo, 'via:' + via]
    try:
        b = BinaryPayloadBuilder(byteorder=bo, wordorder=wo)
        peek = set(case.get('peek') or [])
        reset_at = case.get('reset_at')
        if reset_at is not None and reset_at < len(items):
            labels.append('builder-reset')
        else:
            reset_at = None
        for n_, (kind, v) in enumerate(items):
            if reset_at is not None and n_ == reset_at:
                b.to_string()          # the first payload is taken out (and used) before the builder is re-used
                b.build()
                b.reset()
            if n_ in peek and n_ > 0:
                labels.append('peek')
                b.build()
                b.to_registers()
                b.to_string()
            labels.append('t:' + kind)
            if kind in INTS:
                size, signed = INTS[kind]
                getattr(b, 'add_%dbit_%s' % (size * 8, 'int' if signed else 'uint'))(v)
            elif kind in FLOATS:
                getattr(b, 'add_%dbit_float' % (FLOATS[kind][0] * 8))(_fval(kind, v))
            elif kind == 'bits':
                b.add_bits(list(v))
            elif kind == 'str':
                b.add_string(bytes.fromhex(v))
            elif kind == 'text':
                b.add_string(v)
        raw = b.to_string()
        regs = b.to_registers()
        built = b.build()
    except Exception as e:
        return Outcome([Disc('builder-raises', '%s: %s' % (type(e).__name__, e))], labels, True)

    if reset_at is not None:
        items = items[reset_at:]
    expected = b''.join(_expected_image(it, bo, wo) for it in items)
    if raw != expected:
        discs.append(Disc('layout-bytes', 'to_string()=%s expected %s' % (raw.hex(), expected.hex())))
    padded = expected + (b'\x00' if len(expected) % 2 else b'')
    exp_regs = [int.from_bytes(padded[i:i + 2], 'big') for i in range(0, len(padded), 2)]
    if list(regs) != exp_regs:
        discs.append(Disc('layout-registers', 'to_registers()=%r expected %r' % (list(regs), exp_regs)))
    if b''.join(built) != padded:
        discs.append(Disc('layout-build', 'build()=%r expected %s' % (built, padded.hex())))

    try:
        if via == 'bytes':
            d = BinaryPayloadDecoder(raw, byteorder=bo, wordorder=wo)
        else:
            d = BinaryPayloadDecoder.fromRegisters(list(regs), byteorder=bo, wordorder=wo)
        skip = list(case.get('skip') or [])
        for pass_ in range(2 if case.get('second_pass') else 1):
            if pass_:
                labels.append('second-pass')
                d.reset()
            for idx, (kind, v) in enumerate(items):
                if idx < len(skip) and skip[idx] and pass_ == 0:
                    labels.append('skipped-item')
                    d.skip_bytes(len(_expected_image([kind, v], bo, wo)))
                    continue
                if kind in INTS:
                    size, signed = INTS[kind]
                    got = getattr(d, 'decode_%dbit_%s' % (size * 8, 'int' if signed else 'uint'))()
                    ok = (got == v)
                elif kind in FLOATS:
                    want = _fval(kind, v)
                    got = getattr(d, 'decode_%dbit_float' % (FLOATS[kind][0] * 8))()
                    if math.isnan(want):
                        ok = isinstance(got, float) and math.isnan(got)
                    else:
                        ok = isinstance(got, float) and struct.pack('>d', got) == struct.pack('>d', want)
                elif kind == 'bits':
                    got = []
                    for _ in range((len(v) + 7) // 8):
                        got.extend(d.decode_bits())
                    want = list(v) + [False] * (-len(v) % 8)
                    ok = (got == want)
                else:
                    want = bytes.fromhex(v) if kind == 'str' else v.encode()
                    got = d.decode_string(len(want))
                    ok = (got == want)
                if not ok:
                    discs.append(Disc('roundtrip', 'pass %d item %d %s: put %r got %r' % (pass_, idx, kind, v, got)))
                    break
            if discs:
                break
    except Exception as e:
        discs.append(Disc('decoder-raises', '%s: %s' % (type(e).__name__, e)))

    nt = len(expected) % 2 == 1
    for it in items:
        k = it[0]
        if (k in INTS and INTS[k][0] >= 4) or (k in FLOATS and FLOATS[k][0] >= 4):
            size = INTS[k][0] if k in INTS else FLOATS[k][0]
            net = (int(it[1]).to_bytes(size, 'big', signed=INTS[k][1]) if k in INTS
                   else struct.pack('>' + FLOATS[k][1], _fval(k, it[1])))
            if _reorder(net, bo, wo) != net:
                nt = True
                labels.append('order-mattered')
                break
    if len(expected) % 2:
        labels.append('odd-length')
    return Outcome(discs, labels, nt)
