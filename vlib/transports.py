"""Scripted peers in virtual time for the synchronous clients (DESIGN 3.6).

with World(peer) as w:          # rebinds time/select/socket in pymodbus.client.sync, time in
    client = ...                # pymodbus.transaction and pymodbus.framer.rtu_framer, and serial.Serial
    client.execute(...)
w.log -> [('connect'|'send'|'recv'|'select'|'close', detail...)]

A Peer decides, for every frame the client writes, what (and when) appears in the client's
receive path.  All waiting happens on the virtual clock; nothing sleeps or touches a socket.
"""
import socket as _realsocket
import types

STEP_BUDGET = 100000


class StepBudgetExceeded(Exception):
    pass


class VClock(object):
    def __init__(self):
        self.t = 1000.0

    def time(self):
        return self.t

    def sleep(self, d):
        if d and d > 0:
            self.t += d


class Peer(object):
    """Base peer: override on_write(conn, data) -> list of (delay_s, bytes) to deliver, or raise OSError.
    Special return items: ('close', delay)"""

    def __init__(self):
        self.written = []         # every frame written by the client (bytes), in order
        self.connects = 0

    def on_connect(self, conn):
        self.connects += 1

    def on_write(self, conn, data):
        return []

    def on_read_error(self, conn):
        """return an exception instance to raise from the next read, or None"""
        return None


class _Conn(object):
    """Receive path of one connection (socket or serial port)."""

    def __init__(self, world):
        self.world = world
        self.rx = b''
        self.pending = []     # [(due_time, bytes|'close')]
        self.peer_closed = False
        self.closed = False
        self.read_requests = []   # (asked, returned) for serial-style reads
        self.txbuf = b''          # bytes written that do not make up a whole frame yet (a client may write a frame in pieces)

    def _tx(self, data, stream=True):
        """Hand what the client wrote to the peer one whole frame at a time: a stream client may send a frame in several
        pieces (header, then body); the peer reacts when the frame is complete.  Bytes that are still no frame when the client
        turns to reading are handed over as they are (the peer then reports them as a malformed request)."""
        w = self.world
        framing = getattr(w.peer, 'framing', None)
        if not stream or framing is None:
            return self._tx_deliver(data)
        from vlib import refframe
        self.txbuf += data
        if framing == 'rtu':
            # an RTU frame has no end marker and a prefix of a frame can carry a matching CRC by coincidence: what was written
            # is handed over when the client turns to reading (or writes again after a complete frame + pause)
            return
        try:
            refframe.parse_one(framing, self.txbuf)
        except refframe.FrameError:
            if len(self.txbuf) < 600:
                return            # may be the first part of a frame
        whole, self.txbuf = self.txbuf, b''
        return self._tx_deliver(whole)

    def _tx_deliver(self, data):
        w = self.world
        items = w.peer.on_write(self, data)     # may raise OSError
        w.peer.written.append(data)
        self.feed(items or [])

    def _tx_flush(self):
        if self.txbuf:
            whole, self.txbuf = self.txbuf, b''
            framing = getattr(self.world.peer, 'framing', None)
            parts = [whole]
            if framing is not None:
                from vlib import refframe
                try:
                    refframe.parse_one(framing, whole)
                except refframe.FrameError:
                    try:
                        # several whole frames written without a read in between (a broadcast followed by the next request)
                        frames = refframe.parse_many(framing, whole)
                        parts, pos = [], 0
                        for p_ in frames:
                            fr_ = refframe.build(framing, p_['uid'] or 0, p_['pdu'], p_['tid'] or 0, p_['pid'] or 0)
                            parts.append(whole[pos:pos + len(fr_)])
                            pos += len(fr_)
                        if pos != len(whole):
                            parts = [whole]
                    except refframe.FrameError:
                        parts = [whole]
            for part in parts:
                self._tx_deliver(part)

    def _pump(self):
        now = self.world.clock.t
        keep = []
        for due, item in self.pending:
            if due <= now + 1e-12:
                if item == 'close':
                    self.peer_closed = True
                else:
                    self.rx += item
            else:
                keep.append((due, item))
        self.pending = keep

    def _next_due(self):
        return min([d for d, _ in self.pending]) if self.pending else None

    def feed(self, items):
        now = self.world.clock.t
        for it in items:
            if it[0] == 'close':
                self.pending.append((now + it[1], 'close'))
            else:
                self.pending.append((now + it[0], it[1]))
        self._pump()

    def wait_readable(self, timeout):
        """advance virtual time until data is readable or timeout elapses; True if readable"""
        w = self.world
        w.step()
        self._tx_flush()
        self._pump()
        if self.rx or self.peer_closed or getattr(w.peer, 'read_error', False):
            w.clock.t += 1e-3
            return True
        due = self._next_due()
        if timeout is None:
            if due is None:
                raise StepBudgetExceeded('blocking forever on a silent peer')
            w.clock.t = due
            self._pump()
            return True
        if due is not None and due <= w.clock.t + max(timeout, 0):
            w.clock.t = due
            self._pump()
            return True
        w.clock.t += max(timeout, 0) + 1e-3
        return False


class FakeSocket(_Conn):
    def __init__(self, world, kind='tcp'):
        _Conn.__init__(self, world)
        self.kind = kind
        self.timeout = None

    def fileno(self):
        return 3

    def setblocking(self, flag):
        pass

    def bind(self, addr):
        pass

    def connect(self, addr):
        pass

    def settimeout(self, t):
        self.timeout = t

    def send(self, data):
        w = self.world
        w.step()
        w.yield_point('send')
        if self.closed:
            raise OSError(9, 'Bad file descriptor')
        data = bytes(data)
        w.log.append(('send', w.current(), data))
        self._tx(data, stream=(self.kind != 'udp'))
        return len(data)

    def sendto(self, data, addr):
        return self.send(data)

    def recv(self, n):
        w = self.world
        w.step()
        w.yield_point('recv')
        if self.closed:
            raise OSError(9, 'Bad file descriptor')
        self._tx_flush()
        err = w.peer.on_read_error(self)
        if err is not None:
            raise err
        self._pump()
        if getattr(self, 'blocking_recv', False) and not self.rx:
            # a socket that is read without select (the TLS client): recv blocks until data, end of stream or the socket time-out
            if not self.wait_readable(self.timeout):
                raise _realsocket.timeout('timed out')
            self._pump()
        d, self.rx = self.rx[:n], self.rx[n:]
        w.log.append(('recv', w.current(), d))
        return d

    def recvfrom(self, n):
        # datagram socket with a timeout
        if not self.wait_readable(self.timeout):
            raise _realsocket.timeout('timed out')
        w = self.world
        err = w.peer.on_read_error(self)
        if err is not None:
            raise err
        d, self.rx = self.rx[:n], b''      # one datagram per call; the remainder of a datagram is lost
        w.log.append(('recv', w.current(), d))
        return d, ('127.0.0.1', 502)

    def close(self):
        if not self.closed:
            self.world.yield_point('close')
        try:
            self._tx_flush()
        except OSError:
            pass
        self.closed = True
        self.world.log.append(('close', self.world.current()))


class FakeSerial(_Conn):
    def __init__(self, world, timeout=None, **kw):
        _Conn.__init__(self, world)
        self.timeout = timeout
        self.is_open = True
        self.interCharTimeout = None

    @property
    def in_waiting(self):
        self.world.step()
        self._tx_flush()
        self._pump()
        return len(self.rx)

    def write(self, data):
        w = self.world
        w.step()
        w.yield_point('send')
        data = bytes(data)
        w.log.append(('send', w.current(), data))
        if w.local_echo:
            self.feed([(0.0, data)])
        self._tx(data)
        return len(data)

    def read(self, size=1):
        w = self.world
        w.step()
        w.yield_point('recv')
        self._tx_flush()
        err = w.peer.on_read_error(self)
        if err is not None:
            raise err
        deadline = None if self.timeout is None else w.clock.t + self.timeout
        while True:
            self._pump()
            if len(self.rx) >= size or size == 0:
                break
            due = self._next_due()
            if due is not None and (deadline is None or due <= deadline):
                w.clock.t = due
                continue
            if deadline is None:
                raise StepBudgetExceeded('serial read blocks forever')
            w.clock.t = deadline
            self._pump()
            break
        d, self.rx = self.rx[:size], self.rx[size:]
        self.read_requests.append((size, len(d)))
        w.log.append(('recv', w.current(), d))
        return d

    def close(self):
        if not self.closed:
            self.world.yield_point('close')
        try:
            self._tx_flush()
        except OSError:
            pass
        self.is_open = False
        self.closed = True
        self.world.log.append(('close', self.world.current()))


class World(object):
    def __init__(self, peer, scheduler=None):
        self.peer = peer
        self.clock = VClock()
        self.log = []
        self.steps = 0
        self.conns = []
        self.connect_refusals = []     # consumed one per connection attempt: True = that attempt is refused
        self.local_echo = False        # serial line that echoes every written byte back to the writer (RS-485 two-wire adapters)
        self.scheduler = scheduler
        if scheduler is not None:
            scheduler.clock = self.clock
            scheduler.on_unlock = lambda name: self.log.append(('unlock', name))
        self._saved = []

    def flush_writes(self):
        """hand over what has been written but not read after (RTU frames and partial frames are buffered until the writer reads)"""
        for c_ in self.conns:
            try:
                c_._tx_flush()
            except OSError:
                pass

    def step(self):
        self.steps += 1
        if self.steps > STEP_BUDGET:
            raise StepBudgetExceeded('more than %d transport operations' % STEP_BUDGET)

    def current(self):
        if self.scheduler is not None:
            return self.scheduler.cur
        import threading
        t = threading.current_thread()
        return None if t is threading.main_thread() else t.name

    def yield_point(self, what):
        if self.scheduler is not None:
            self.scheduler.yield_point(what)

    # ---- fakes handed to pymodbus
    def _new_socket(self, kind='tcp'):
        self.step()
        self.yield_point('connect')
        if self.connect_refusals and self.connect_refusals.pop(0):
            self.log.append(('connect-refused', self.current()))
            raise _realsocket.error(111, 'Connection refused')
        s = FakeSocket(self, kind)
        self.conns.append(s)
        self.log.append(('connect', self.current()))
        self.peer.on_connect(s)
        return s

    def _new_serial(self, **kw):
        self.step()
        self.yield_point('connect')
        s = FakeSerial(self, **kw)
        # a serial line is one physical medium: what the peer sends later arrives on whatever handle is open then
        for old in reversed(self.conns):
            if isinstance(old, FakeSerial):
                s.pending, old.pending = old.pending, []
                break
        self.conns.append(s)
        self.log.append(('connect', self.current()))
        self.peer.on_connect(s)
        return s

    def __enter__(self):
        import pymodbus.client.sync as cs
        import pymodbus.transaction as tr
        import pymodbus.framer.rtu_framer as rf
        import serial
        world = self
        faketime = types.SimpleNamespace(time=self.clock.time, sleep=self.clock.sleep)

        def select(r, wl, x, timeout=None):
            s = r[0]
            return ([s], [], []) if s.wait_readable(timeout) else ([], [], [])
        fakeselect = types.SimpleNamespace(select=select)

        class FakeSocketModule(object):
            error = _realsocket.error
            timeout = _realsocket.timeout
            AF_INET = _realsocket.AF_INET
            AF_INET6 = _realsocket.AF_INET6
            SOCK_DGRAM = _realsocket.SOCK_DGRAM
            SOCK_STREAM = _realsocket.SOCK_STREAM

            @staticmethod
            def create_connection(addr, timeout=None, source_address=None):
                return world._new_socket('tcp')

            @staticmethod
            def socket(family=None, kind=None):
                return world._new_socket('tcp' if kind == _realsocket.SOCK_STREAM else 'udp')

            @staticmethod
            def inet_pton(family, address):
                raise _realsocket.error('not ipv6')
        self._saved = [(cs, 'time', cs.time), (cs, 'select', cs.select), (cs, 'socket', cs.socket),
                       (tr, 'time', tr.time), (rf, 'time', rf.time), (serial, 'Serial', serial.Serial)]
        if self.scheduler is not None:
            from vlib import sched
            lock_class = sched.make_lock_class(lambda: world.scheduler)
            self._saved.append((tr, 'RLock', tr.RLock))
            tr.RLock = lock_class
            if hasattr(cs, 'RLock'):
                self._saved.append((cs, 'RLock', cs.RLock))
                cs.RLock = lock_class
        cs.time = faketime
        cs.select = fakeselect
        cs.socket = FakeSocketModule
        tr.time = faketime
        rf.time = faketime
        serial.Serial = lambda **kw: world._new_serial(**kw)
        return self

    def __exit__(self, *a):
        for c_ in self.conns:
            try:
                c_._tx_flush()
            except OSError:
                pass
        for mod, name, val in self._saved:
            setattr(mod, name, val)
        return False


def serial_options():
    """Hypothesis strategy: constructor options of ModbusSerialClient that the checks vary."""
    from hypothesis import strategies as st
    return st.one_of(st.just({}), st.fixed_dictionaries({
        'echo': st.booleans(),                       # handle_local_echo=True on a line that echoes
        'strict': st.booleans(),
        'baud': st.sampled_from([9600, 19200, 19200, 38400, 115200])}))


def serial_kwargs(world, opts):
    opts = opts or {}
    world.local_echo = bool(opts.get('echo'))
    kw = {'baudrate': opts.get('baud', 19200)}
    if 'strict' in opts:
        kw['strict'] = opts['strict']
    if opts.get('echo'):
        kw['handle_local_echo'] = True
    return kw


class FakeTlsContext(object):
    """stands for an ssl.SSLContext: the 'wrapped' socket is the fake socket itself, read without select"""

    def wrap_socket(self, sock, server_side=False, server_hostname=None):
        sock.blocking_recv = True
        return sock


# --------------------------------------------------------------------------------------- reference responder
def reply_pdu(req_pdu, seq):
    """Spec reply of a conformant server to a request, with values that are a unique function of `seq`
    (so every transaction's reply is distinguishable)."""
    import struct
    from vlib import specpdu
    fc = req_pdu[0]
    try:
        kind, f = specpdu.decode('req', req_pdu)
    except specpdu.SpecError:
        return bytes([fc | 0x80, 1])
    if fc in (1, 2):
        n = f['quantity']
        return specpdu.encode('rsp:%d' % fc, {'bits': [bool(((seq * 2654435761 + i * 40503) >> 7) & 1) for i in range(n)]})
    if fc in (3, 4):
        n = f['quantity']
        return specpdu.encode('rsp:%d' % fc, {'registers': [(seq * 257 + i * 13 + 1) & 0xFFFF for i in range(n)]})
    if fc in (5, 6):
        return req_pdu
    if fc in (15, 16):
        return specpdu.encode('rsp:%d' % fc, {'address': f['address'], 'quantity': len(f['bits'] if fc == 15 else f['registers'])})
    if fc == 22:
        return req_pdu
    if fc == 23:
        return specpdu.encode('rsp:23', {'registers': [(seq * 257 + i * 13 + 5) & 0xFFFF for i in range(f['read_quantity'])]})
    if fc == 8:
        return req_pdu
    if fc == 7:
        return specpdu.encode('rsp:7', {'status': seq & 0xFF})
    if fc == 11:
        return specpdu.encode('rsp:11', {'status_word': 0, 'event_count': seq & 0xFFFF})
    if fc == 17:
        return specpdu.encode('rsp:17', {'identifier': ('%04x' % (seq & 0xFFFF)).encode().hex(), 'run': True})
    return bytes([fc | 0x80, 1])
