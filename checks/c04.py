"""C04 Server executes data-access requests as a Modbus register file."""
from hypothesis import strategies as st

from vlib import gens, kinds, model, pm, refframe, specpdu
from vlib.engine import Disc, Outcome

PID = 'C04'
RULE = ('Hypothesis: datastore layout (per table sequential (start,size) anywhere in 0..65536 or sparse key set, arbitrary '
        'initial values, zero-mode on/off, tables separate or coils+discretes / holding+input sharing one block) + a history '
        'of 1..25 requests FC 1-6,15,16,22,23 constructed to be valid in the model (address and quantity drawn inside a '
        'populated run, hot-cell bias so reads and writes overlap) + the framing through which every request travels: '
        'spec-built PDU -> reference-built frame -> server-side framer.processIncomingPacket -> decoded request.execute(context) '
        '-> framer.buildPacket -> reference frame parser -> spec decoder. Oracle: register-file model (vlib/model): response '
        'fields after every step and a full dump of the four real tables after every step. Non-trivial: a read covering a '
        'cell written earlier in the history, or a mask-write / read-write-multiple step; distinct by SHA-1.')
ASSUMPTIONS = ['protocol address a is block address a+1 unless zero_mode (documented pymodbus convention)',
               'only requests valid in the model are generated here; invalid ones are C05',
               'binary-framing steps whose frame would contain a delimiter byte go through the decoder directly (recorded finding KF-BINARY-FRAMER-DELIMITER-BYTES is C03/C06 business) and are labelled']
BUDGET = {'quick': 3000, 'thorough': 5000}

LIMITS = {1: 2000, 2: 2000, 3: 125, 4: 125, 15: 1968, 16: 123}


def _proto_runs(lay, table):
    off = 0 if lay['zero_mode'] else 1
    share = lay.get('share')
    src = table
    if table == 'd' and share in ('bits', 'both'):
        src = 'c'
    if table == 'i' and share in ('regs', 'both'):
        src = 'h'
    if lay['tables'][src]['shape'] == 'default':
        return [(0, 65536 - off)] if off == 0 else [(0, 65535)]
    cells = model.block_cells(lay['tables'][src])
    return gens.runs([k - off for k in cells if 0 <= k - off <= 65535])


@st.composite
def _range(draw, lay, table, maxq):
    rs = _proto_runs(lay, table)
    if not rs:
        return None
    a0, n = draw(st.sampled_from(rs[:3])) if len(rs) > 1 else rs[0]
    q = draw(st.one_of(st.integers(1, min(maxq, n, 4)), st.integers(1, min(maxq, n)), st.just(min(maxq, n)), st.integers(max(1, min(maxq, n) - 3), min(maxq, n))))
    # offset: at the start of the run, near it, anywhere, or so that the range ends exactly on the last cell of the run
    o = draw(st.one_of(st.just(0), st.integers(0, min(3, n - q)), st.integers(0, n - q), st.just(n - q)))
    return a0 + o, q


@st.composite
def _step(draw, lay):
    fc = draw(st.sampled_from(model.DATA_FCS))
    t = model.TABLE_OF_FC[fc]
    if fc in (1, 2, 3, 4):
        r = draw(_range(lay, t, LIMITS[fc]))
        if r is None:
            return None
        return ['req:%d' % fc, {'address': r[0], 'quantity': r[1]}]
    if fc == 5:
        r = draw(_range(lay, t, 1))
        return r and ['req:5', {'address': r[0], 'value': draw(st.sampled_from([0xFF00, 0]))}]
    if fc == 6:
        r = draw(_range(lay, t, 1))
        return r and ['req:6', {'address': r[0], 'value': draw(st.one_of(gens.u16(), gens.u16(), st.just(r[0]), st.just((r[0] + 1) & 0xFFFF)))}]
    if fc == 15:
        r = draw(_range(lay, t, 1968))
        return r and ['req:15', {'address': r[0], 'bits': draw(st.lists(st.booleans(), min_size=r[1], max_size=r[1]))}]
    if fc == 16:
        r = draw(_range(lay, t, 123))
        return r and ['req:16', {'address': r[0], 'registers': draw(st.lists(gens.u16(), min_size=r[1], max_size=r[1]))}]
    if fc == 22:
        r = draw(_range(lay, t, 1))
        return r and ['req:22', {'address': r[0], 'and_mask': draw(gens.u16()), 'or_mask': draw(gens.u16())}]
    if fc == 23:
        r = draw(_range(lay, t, 125))
        w = draw(_range(lay, t, 121))
        return r and w and ['req:23', {'read_address': r[0], 'read_quantity': r[1], 'write_address': w[0],
                                        'registers': draw(st.lists(gens.u16(), min_size=w[1], max_size=w[1]))}]


@st.composite
def _case(draw):
    lay = draw(gens.layout(max_size=draw(st.sampled_from([20, 60, 300])), allow_default=True))
    framing = draw(st.sampled_from(['tcp', 'rtu', 'ascii', 'binary', 'tls']))
    n = draw(st.integers(1, 25))
    steps = [s for s in (draw(_step(lay)) for _ in range(n)) if s]
    return {'layout': lay, 'framing': framing, 'uid': draw(st.integers(1, 247)), 'steps': steps}


def strategy(tier):
    return _case().filter(lambda c: len(c['steps']) > 0)


def _to_abstract(kind, f):
    return model.abstract_request(specpdu.encode(kind, f))


def run_case(case):
    lay, framing, uid = case['layout'], case['framing'], case['uid']
    labels = ['framing:' + framing, 'zero_mode:%s' % lay['zero_mode'], 'share:%s' % lay.get('share')]
    for t in 'cdhi':
        labels.append('shape:' + lay['tables'][t]['shape'])
    discs = []
    slave = model.make_slave(lay)
    ref = model.SlaveModel(lay)
    Framer = pm.framer_class(framing)
    written = dict((t, set()) for t in 'cdhi')
    nt = False
    has_default = any(lay['tables'][t]['shape'] == 'default' for t in 'cdhi')
    window = set([0, 1, 65535]) if has_default else None
    if has_default:
        labels.append('default-tables')

    def real_dump():
        return model.norm_dump(model.dump_slave(slave, window))

    def model_dump():
        return model.norm_dump(model.dump_model(ref, window))
    try:
        if real_dump() != model_dump():
            return Outcome([Disc('initial-state', 'datastore built from the layout does not hold the initial values')], labels, False)
        framer = Framer(pm.decoder('req'))
        for i, (kind, f) in enumerate(case['steps']):
            fc = int(kind.split(':')[1])
            labels.append('fc:%d' % fc)
            pdu = specpdu.encode(kind, f)
            areq = model.abstract_request(pdu)
            t = model.TABLE_OF_FC[fc]
            if window is not None:
                for key in ('address', 'read_address'):
                    if key in areq:
                        n_ = areq.get('read_quantity' if key == 'read_address' else 'quantity', 1) or 1
                        window.update(range(max(0, areq[key] + ref.off - 1), min(65536, areq[key] + ref.off + n_ + 1)))
            if fc in (22, 23):
                nt = True
            if fc in (1, 2, 3, 4):
                off = ref.off
                if any((areq['address'] + off + j) in written[t] for j in range(areq['quantity'])):
                    nt = True
                    labels.append('read-after-write')
            outcomes, primary = ref.classify(areq)
            if primary != 'normal':
                from vlib.engine import HarnessError
                raise HarnessError('C04 generator produced a request the model rejects: %r %r' % (kind, f))
            want_kind, want_f = ref.apply(areq)
            if fc in (5, 6, 15, 16, 22, 23):
                a = areq['address']
                n = 1 if fc in (5, 6, 22) else areq['quantity']
                tabs = [t]
                share = lay.get('share')
                if t in 'cd' and share in ('bits', 'both'):
                    tabs = ['c', 'd']
                if t in 'hi' and share in ('regs', 'both'):
                    tabs = ['h', 'i']
                for tt in tabs:
                    written[tt].update(a + ref.off + j for j in range(n))
            # ---- through the framing
            tid = (i * 7 + 1) & 0xFFFF
            frame = refframe.build(framing, uid, pdu, tid, 0)
            got = []
            between = frame[1:-1] if framing == 'binary' else b''
            if framing == 'binary' and refframe.binary_fragile(frame):
                labels.append('binary-step-bypassed-delimiter')
                req = pm.decoder('req').decode(pdu)
                req.unit_id, req.transaction_id = uid, tid
                got.append(req)
            else:
                kw = {} if framing == 'tls' else {'single': True}
                framer.processIncomingPacket(frame, got.append, [uid], **kw)
            if len(got) != 1:
                discs.append(Disc('not-delivered', 'step %d %s %r: framer delivered %d requests for one valid frame' % (i, kind, f, len(got))))
                break
            req = got[0]
            rsp = req.execute(slave)
            rsp.transaction_id, rsp.unit_id = req.transaction_id, req.unit_id
            out = Framer(pm.decoder('req')).buildPacket(rsp)
            if framing == 'binary' and refframe.binary_fragile(out):
                rpdu = bytes([rsp.function_code]) + rsp.encode()
                labels.append('binary-step-bypassed-delimiter')
            else:
                rpdu = refframe.parse_one(framing, out)['pdu']
            try:
                gk, gf = specpdu.decode('rsp', rpdu)
            except specpdu.SpecError as e:
                discs.append(Disc('response-malformed', 'step %d %s %r: response PDU %s is not a spec PDU: %s' % (i, kind, f, rpdu.hex()[:60], e)))
                break
            if gk != want_kind or not kinds.fields_equal(_trim(gf, want_f), want_f):
                discs.append(Disc('response', 'step %d %s %r: response %s %r, model %s %r' % (i, kind, f, gk, _short(gf), want_kind, _short(want_f))))
                break
            if real_dump() != model_dump():
                discs.append(Disc('state', 'step %d %s %r: %s' % (i, kind, f, _diff(real_dump(), model_dump()))))
                break
    except (refframe.FrameError,) as e:
        discs.append(Disc('response-frame', 'response frame not well-formed: %s' % e))
    except Exception as e:
        from vlib.engine import HarnessError
        if isinstance(e, HarnessError):
            raise
        discs.append(Disc('raises', '%s: %s' % (type(e).__name__, e)))
    return Outcome(discs, labels, nt)


def _trim(got, want):
    """read-bits responses carry padding up to a byte: compare the requested quantity only."""
    if 'bits' in got and 'bits' in want:
        g = list(got['bits'])
        n = len(want['bits'])
        if len(g) == 8 * ((n + 7) // 8) and not any(g[n:]):
            return {'bits': g[:n]}
    return got


def _short(f):
    return dict((k, (v[:8] + ['...'] if isinstance(v, list) and len(v) > 8 else v)) for k, v in f.items())


def _diff(real, ref):
    out = []
    for t in 'cdhi':
        for a in sorted(set(real[t]) | set(ref[t])):
            if real[t].get(a) != ref[t].get(a):
                out.append('%s[%d]: real %r model %r' % (t, a, real[t].get(a), ref[t].get(a)))
    return '; '.join(out[:6])
