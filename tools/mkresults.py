#!/usr/bin/env python3
"""Rewrites seeded/DETECTION.md from regress/: which check keeps a saved failing input for which seeded defect
(tools/harvest.py tries the check of the seed's own property first, then the others)."""
import glob, json, os
rows = {}
for f in sorted(glob.glob('/verif/regress/*__C??-?.json')):
    chk, seed = os.path.basename(f)[:-5].split('__')
    d = json.load(open(f))
    disc = (d.get('discrepancies') or [{}])[0]
    rows[seed] = (chk, disc.get('kind', ''), (disc.get('detail') or '')[:150].replace('|', '/'))
seeds = sorted(x for x in os.listdir('/verif/seeded') if os.path.isdir('/verif/seeded/' + x) and x[0] == 'C')
out = ['# Seeded defects and the check that reports them (quick tier, default seed)', '',
       'Produced by tools/harvest.py + tools/mkresults.py. "own" = the check of the property the change was written against.', '',
       '| seed | round | reported by | discrepancy |', '|---|---|---|---|']
own = sib = miss = 0
for s in seeds:
    rnd = {'a': 1, 'b': 1, 'c': 2, 'd': 2, 'e': 3, 'f': 3, 'g': 4, 'h': 4, 'i': 5, 'j': 5, 'k': 6, 'l': 6, 'm': 7, 'n': 7, 'o': 8, 'p': 8, 'q': 9, 'r': 9, 's': 10}.get(s[-1], '?')
    if s in rows:
        chk, kind, det = rows[s]
        if chk == s[:3]:
            own += 1
        else:
            sib += 1
        out.append('| %s | %s | %s | %s: %s |' % (s, rnd, 'own (%s)' % chk if chk == s[:3] else 'sibling %s' % chk, kind, det))
    else:
        miss += 1
        out.append('| %s | %s | NOT REPORTED | |' % (s, rnd))
out += ['', '%d seeded defects: %d reported by the own check, %d by a sibling check, %d not reported.' % (len(seeds), own, sib, miss)]
open('/verif/seeded/DETECTION.md', 'w').write('\n'.join(out) + '\n')
print(out[-1])
