#!/venv/bin/python
"""atheris (libFuzzer) stage: fuzz/target.py <Cnn> <artifact.json> [libFuzzer args...]

Input layout: byte0 framing selector, byte1 chunking selector, byte2 extra selector
(front-end for C12, frames-per-read for C11), rest = the byte stream.  The semantic oracle is the
check's own run_case(); a discrepancy that is not a listed known finding is written to
<artifact.json> as a replayable case and raised so that libFuzzer stops."""
import json
import os
import sys

HERE = os.path.dirname(os.path.dirname(os.path.abspath(__file__)))
repo = os.path.abspath(os.environ.get('VERIF_REPO', '/repo'))
sys.path.insert(0, repo)
sys.path.insert(0, HERE)
sys.path.append(os.path.join(HERE, '.deps'))
import logging
logging.disable(logging.CRITICAL)
import warnings
warnings.simplefilter('ignore')
import atheris

pid = sys.argv[1].upper()
artifact = sys.argv[2]
with atheris.instrument_imports(include=['pymodbus']):
    import pymodbus  # noqa
    import pymodbus.framer.socket_framer, pymodbus.framer.rtu_framer, pymodbus.framer.ascii_framer, pymodbus.framer.binary_framer  # noqa
    import pymodbus.factory, pymodbus.server.sync, pymodbus.server.async_io, pymodbus.server.asynchronous  # noqa
import importlib
mod = importlib.import_module('checks.%s' % pid.lower())
from vlib import engine, frontends
known, _ = engine.load_known()
count = [0]


def to_case(data):
    if len(data) < 4:
        return None
    f, c, x, stream = data[0], data[1], data[2], data[3:]
    cut = ['whole'] if c % 4 == 0 else (['every', c % 9 + 1] if c % 4 == 1 else ['at', [c, c * 3 % 251, x]])
    if pid == 'C07':
        framing = ['rtu', 'ascii', 'binary', 'tcp'][f % 4]
        return {'framing': framing, 'uid': [1, 0x11, 0x30, 247][x % 4], 'frames': [stream.hex()], 'muts': [], 'cut': cut, 'via_server': False}
    if pid == 'C11':
        framing = ['rtu', 'ascii', 'binary'][f % 3]
        return {'framing': framing, 'garbage': stream[:300].hex(), 'gcut': cut, 'join': bool(x & 1), 'nvalid': 75, 'k': 1 + (x >> 1) % 3, 'receiver': 'framer'}
    if pid == 'C12':
        fe = frontends.ALL[x % len(frontends.ALL)]
        framings = ['tcp', 'rtu', 'ascii', 'binary', 'tls'] if fe in frontends.STREAM else ['tcp', 'rtu', 'ascii', 'binary']
        framing = framings[f % len(framings)]
        return {'frontend': fe, 'framing': framing, 'uid': [0, 1, 17, 255][(x >> 4) % 4], 'single': True if framing == 'tls' else bool(x & 8),
                'stream': stream[:400].hex(), 'cuts': cut}
    raise SystemExit('no fuzz mapping for ' + pid)


def one(data):
    case = to_case(data)
    if case is None:
        return
    count[0] += 1
    out = mod.run_case(case)
    for d in out.discs:
        if d.finding is not None and d.finding in known and pid in known[d.finding].get('properties', []):
            continue
        with open(artifact, 'w') as fh:
            json.dump({'property': pid, 'case': case, 'discrepancies': [x.to_json() for x in out.discs]}, fh)
        raise RuntimeError('%s: %s' % (d.kind, d.detail))


atheris.Setup([sys.argv[0]] + sys.argv[3:], one)
atheris.Fuzz()
