"""pymodbus-facing helpers shared by checks (imports pymodbus lazily so that the tree
under test is whatever run_check.py put first on sys.path)."""


def framer_class(framing):
    import pymodbus.transaction as t
    return {'tcp': t.ModbusSocketFramer, 'rtu': t.ModbusRtuFramer, 'ascii': t.ModbusAsciiFramer,
            'binary': t.ModbusBinaryFramer, 'tls': t.ModbusTlsFramer}[framing]


def decoder(direction):
    from pymodbus.factory import ServerDecoder, ClientDecoder
    return ServerDecoder() if direction == 'req' else ClientDecoder()


class RecordingDecoder(object):
    """Proxy around a real decoder that records the exact PDU bytes the framer hands over."""

    def __init__(self, real):
        self.real = real
        self.seen = []
        self.objs = []

    def decode(self, data):
        self.seen.append(bytes(data))
        result = self.real.decode(data)
        if result is not None:
            self.objs.append((result, bytes(data)))      # keep the object alive: identity -> PDU bytes
        return result

    def pdu_of(self, message):
        """The PDU bytes the given delivered message object was decoded from (a framer may decode several
        frames of one read before it delivers any of them)."""
        for obj, data in self.objs:
            if obj is message:
                return data
        return None

    def lookupPduClass(self, function_code):
        return self.real.lookupPduClass(function_code)

    def register(self, *a, **kw):
        return self.real.register(*a, **kw)


def reset_globals():
    """Restore pymodbus process-wide singletons to their import-time state."""
    from pymodbus.device import ModbusControlBlock, ModbusDeviceIdentification
    from pymodbus.constants import Defaults
    mcb = ModbusControlBlock()
    mcb.ListenOnly = False
    mcb.reset()
    mcb.Delimiter = b'\r'
    mcb.Mode = 'ASCII'
    mcb.clearEvents()
    mcb.Plus.reset()
    ident = mcb.Identity
    data = ident._ModbusDeviceIdentification__data
    for k in list(data.keys()):
        if k in range(0, 9):
            data[k] = ''
        else:
            del data[k]
    global _DEFAULTS
    if _DEFAULTS is None:
        _DEFAULTS = dict((k, getattr(Defaults, k)) for k in dir(Defaults) if not k.startswith('_'))
    for k, v in _DEFAULTS.items():
        if getattr(Defaults, k) != v:
            setattr(Defaults, k, v)


_DEFAULTS = None
