#!/venv/bin/python
"""Applies every property-preserving change in /tmp/benign_Cnn/<x>/patch.diff to a scratch copy and runs
all quick checks: every check must stay at rc 0 (a VIOLATION here is a false alarm of the harness)."""
import json, os, shutil, subprocess, sys, tempfile, time, glob
from concurrent.futures import ThreadPoolExecutor
ALL = ['C%02d' % i for i in range(1, 21)]
def one(path):
    name = (path.split('/')[2].replace('benign_', '') + '-' + path.split('/')[3]) if path.startswith('/tmp/') else path.split('/')[3]
    d = tempfile.mkdtemp(prefix='bn_', dir='/tmp')
    out = {}
    try:
        r = subprocess.run('git -C /repo archive HEAD | tar -x -C %s && cd %s && git init -q . && git apply %s' % (d, d, path), shell=True, capture_output=True, text=True)
        if r.returncode:
            return name, {'apply': r.stderr[:200]}
        if os.environ.get('BENIGN_SKIP_TESTS') == '1':
            out['tests'] = 0
        else:
            rt = subprocess.run('/verif/tools/basecheck.sh %s' % d, shell=True, capture_output=True, text=True)
            out['tests'] = rt.returncode
        own = name[:3]
        for c in [own] + [x for x in ALL if x != own]:
            env = dict(os.environ, VERIF_REPO=d, VERIF_OUT=d, VERIF_SHARDS='2')
            r = subprocess.run(['/venv/bin/python', '/verif/run_check.py', c], env=env, capture_output=True, text=True, cwd='/verif')
            line = [l.strip() for l in (r.stdout + r.stderr).splitlines() if 'discrepancy' in l or 'HARNESS' in l][:1]
            out[c] = {'rc': r.returncode, 'why': line[0][:300] if line else ''}
    finally:
        shutil.rmtree(d, ignore_errors=True)
    return name, out
paths = (sorted(glob.glob('/verif/benign/*/patch.diff')) if os.environ.get('BENIGN_STORED') == '1' else
         (sorted(glob.glob('/tmp/benign_C*/*/patch.diff')) or sorted(glob.glob('/verif/benign/*/patch.diff'))))
if len(sys.argv) > 1:
    paths = [p for p in paths if any(k in p for k in sys.argv[1].split(','))]
res = {}
RES = os.environ.get('BENIGN_RESULTS', '/tmp/benign_results.json')
if os.path.exists(RES):
    res = json.load(open(RES))
paths = [p for p in paths if ((p.split('/')[2].replace('benign_', '') + '-' + p.split('/')[3]) if p.startswith('/tmp/') else p.split('/')[3]) not in res]
with ThreadPoolExecutor(int(os.environ.get('BENIGN_JOBS', '5'))) as ex:
    for name, out in ex.map(one, paths):
        res[name] = out
        bad = {c: v for c, v in out.items() if isinstance(v, dict) and v.get('rc')}
        print(name, 'tests rc', out.get('tests'), 'ALARMS:' if bad else 'quiet', json.dumps(bad)[:600])
        sys.stdout.flush()
        json.dump(res, open(RES, 'w'), indent=1)
