"""Independent framing reference: CRC-16/Modbus, LRC, ADU builders, strict single-frame
parsers and the justification oracle ("is this delivered (unit, pdu) backed by a
well-formed frame with a correct integrity field somewhere in the bytes fed so far?").
Nothing here imports pymodbus."""
import struct

FRAMINGS = ['tcp', 'rtu', 'ascii', 'binary', 'tls']


def _crc_bitwise(data):
    crc = 0xFFFF
    for b in data:
        crc ^= b
        for _ in range(8):
            if crc & 1:
                crc = (crc >> 1) ^ 0xA001
            else:
                crc >>= 1
    return crc


# table derived from the bitwise definition above (speed only)
_TABLE = []
for _i in range(256):
    _c = _i
    for _ in range(8):
        _c = (_c >> 1) ^ 0xA001 if _c & 1 else _c >> 1
    _TABLE.append(_c)


def crc16(data):
    """CRC-16/Modbus as an integer (wire order: low byte first)."""
    crc = 0xFFFF
    for b in data:
        crc = (crc >> 8) ^ _TABLE[(crc ^ b) & 0xFF]
    return crc


def crc_wire(data):
    c = crc16(data)
    return bytes([c & 0xFF, c >> 8])


def lrc(data):
    return (-sum(data)) & 0xFF


def build(framing, uid, pdu, tid=0, pid=0):
    if framing == 'tcp':
        return struct.pack('>HHHB', tid, pid, len(pdu) + 1, uid) + pdu
    if framing == 'rtu':
        body = bytes([uid]) + pdu
        return body + crc_wire(body)
    if framing == 'ascii':
        body = bytes([uid]) + pdu
        return b':' + (body + bytes([lrc(body)])).hex().upper().encode() + b'\r\n'
    if framing == 'binary':
        body = bytes([uid]) + pdu
        return b'{' + body + crc_wire(body) + b'}'
    if framing == 'tls':
        return pdu
    raise ValueError(framing)


def binary_escape(data):
    out = bytearray()
    for b in data:
        if b in (0x7B, 0x7D):
            out.append(b)
        out.append(b)
    return bytes(out)


def binary_fragile(frame):
    """True when a whole binary frame ('{' ... '}') falls under the recorded finding KF-BINARY-FRAMER-DELIMITER-BYTES:
    an end delimiter byte 0x7D anywhere between the delimiters ends the frame early, and a 0x7B / 0x7D inside the PDU
    data is doubled by buildPacket and never un-escaped.  A 0x7B in the unit, function code or CRC position is harmless."""
    inner = frame[1:-1]
    return (0x7D in inner) or (0x7B in frame[3:-3])


def has_delims(framing, data):
    if framing == 'binary':
        return any(b in (0x7B, 0x7D) for b in data)
    return False


class FrameError(Exception):
    pass


def parse_one(framing, frame):
    """Strictly parse `frame` as exactly ONE frame -> dict(uid, tid, pid, pdu)."""
    if framing == 'tcp':
        if len(frame) < 8:
            raise FrameError('short MBAP frame')
        tid, pid, ln, uid = struct.unpack('>HHHB', frame[:7])
        if ln != len(frame) - 6:
            raise FrameError('MBAP length %d does not match frame of %d bytes' % (ln, len(frame)))
        return {'uid': uid, 'tid': tid, 'pid': pid, 'pdu': frame[7:]}
    if framing == 'rtu':
        if len(frame) < 4:
            raise FrameError('short RTU frame')
        if crc_wire(frame[:-2]) != frame[-2:]:
            raise FrameError('bad CRC')
        return {'uid': frame[0], 'tid': None, 'pid': None, 'pdu': frame[1:-2]}
    if framing == 'ascii':
        if len(frame) < 9 or frame[:1] != b':' or frame[-2:] != b'\r\n':
            raise FrameError('bad ASCII delimiters')
        hx = frame[1:-2]
        if len(hx) % 2 or any(c not in b'0123456789ABCDEFabcdef' for c in hx):
            raise FrameError('bad hex')
        raw = bytes.fromhex(hx.decode())
        if lrc(raw[:-1]) != raw[-1]:
            raise FrameError('bad LRC')
        return {'uid': raw[0], 'tid': None, 'pid': None, 'pdu': raw[1:-1]}
    if framing == 'binary':
        if len(frame) < 6 or frame[:1] != b'{' or frame[-1:] != b'}':
            raise FrameError('bad binary delimiters')
        body = frame[1:-3]
        if crc_wire(body) != frame[-3:-1]:
            raise FrameError('bad CRC')
        return {'uid': body[0], 'tid': None, 'pid': None, 'pdu': body[1:]}
    if framing == 'tls':
        if not frame:
            raise FrameError('empty')
        return {'uid': None, 'tid': None, 'pid': None, 'pdu': frame}
    raise ValueError(framing)


def justified(framing, fed, uid, pdu, tid=None, pid=None):
    """True iff `fed` (all bytes given to the receiver so far) contains, as a contiguous
    substring, a well-formed frame of this framing carrying exactly (uid, pdu) with a correct
    integrity field (CRC / LRC + valid hex / MBAP length == len(pdu)+1)."""
    if len(pdu) < 1:
        return False
    if framing == 'tcp':
        if tid is None:
            # any tid/pid: look for length+uid+pdu and two header bytes before it
            tail = struct.pack('>HB', len(pdu) + 1, uid) + pdu
            i = fed.find(tail)
            while i != -1:
                if i >= 4:
                    return True
                i = fed.find(tail, i + 1)
            return False
        return build('tcp', uid, pdu, tid, pid or 0) in fed
    if framing == 'rtu':
        return build('rtu', uid, pdu) in fed
    if framing == 'ascii':
        return build('ascii', uid, pdu) in fed.upper()
    if framing == 'binary':
        return build('binary', uid, pdu) in fed
    if framing == 'tls':
        return pdu in fed
    raise ValueError(framing)


def contains_any_frame(framing, stream, max_len=300):
    """Brute force: does `stream` contain ANY well-formed frame (any unit, any pdu of >=1 byte)?
    Used by harness self-checks on small streams."""
    n = len(stream)
    if framing == 'rtu':
        for i in range(n):
            for j in range(i + 4, min(n, i + max_len) + 1):
                if crc_wire(stream[i:j - 2]) == stream[j - 2:j]:
                    return True
        return False
    if framing == 'binary':
        for i in range(n):
            if stream[i] != 0x7B:
                continue
            for j in range(i + 5, n):
                if stream[j] == 0x7D and crc_wire(stream[i + 1:j - 2]) == stream[j - 2:j]:
                    return True
        return False
    if framing == 'ascii':
        up = stream
        for i in range(n):
            if up[i:i + 1] != b':':
                continue
            j = up.find(b'\r\n', i)
            while j != -1:
                try:
                    parse_one('ascii', up[i:j + 2])
                    return True
                except FrameError:
                    pass
                j = up.find(b'\r\n', j + 1)
        return False
    if framing == 'tcp':
        for i in range(0, n - 7):
            ln = struct.unpack('>H', stream[i + 4:i + 6])[0]
            if ln >= 2 and i + 6 + ln <= n:
                return True
        return False
    raise ValueError(framing)


MAX_FRAME = {'rtu': 256, 'ascii': 513, 'binary': 518, 'tcp': 260}


def self_check():
    if _crc_bitwise(b'123456789') != 0x4B37 or crc16(b'123456789') != 0x4B37:
        raise AssertionError('CRC-16/Modbus check value')
    if crc_wire(bytes.fromhex('01030000000A')) != bytes.fromhex('C5CD'):
        raise AssertionError('CRC example')
    for d in (b'', b'\x00', b'\xff' * 7, bytes(range(256))):
        if crc16(d) != _crc_bitwise(d):
            raise AssertionError('CRC table vs bitwise')
    if build('ascii', 1, bytes.fromhex('0300000001')) != b':010300000001FB\r\n':
        raise AssertionError('LRC example')
    if build('tcp', 0x11, bytes.fromhex('03006B0003'), 1, 0) != bytes.fromhex('00010000000611' + '03006B0003'):
        raise AssertionError('MBAP example')
    for fr in FRAMINGS:
        f = build(fr, 5, b'\x03\x02\x00\x07', 9, 0)
        p = parse_one(fr, f)
        if p['pdu'] != b'\x03\x02\x00\x07':
            raise AssertionError('parse_one ' + fr)
        if not justified(fr, b'zz' + f + b'yy', 5, b'\x03\x02\x00\x07', 9 if fr == 'tcp' else None, 0):
            raise AssertionError('justified ' + fr)


self_check()


def find_frames(framing, stream, limit=600):
    """Every contiguous substring of `stream` that is a well-formed frame of this framing with a
    correct integrity field -> list of dict(offset, end, uid, tid, pdu).  Over-approximates what a
    sequential receiver may legitimately accept (sound for "only justified effects" oracles).
    RTU frames are recognised for the lengths of the data-access/diagnostic functions and by a
    brute-force scan of all (offset, length) pairs up to 260 bytes."""
    n = len(stream)
    out = []
    if framing == 'tcp':
        for o in range(0, n - 7):
            ln = struct.unpack('>H', stream[o + 4:o + 6])[0]
            if ln >= 2 and o + 6 + ln <= n:
                tid, pid = struct.unpack('>HH', stream[o:o + 4])
                out.append({'offset': o, 'end': o + 6 + ln, 'uid': stream[o + 6], 'tid': tid, 'pid': pid,
                            'pdu': stream[o + 7:o + 6 + ln]})
        return out
    if framing == 'rtu':
        for o in range(0, n - 3):
            crc = 0xFFFF
            top = min(n, o + 260)
            for j in range(o, top):
                crc = (crc >> 8) ^ _TABLE[(crc ^ stream[j]) & 0xFF]
                # crc now covers stream[o..j]; frame would be stream[o..j] + 2 crc bytes
                if j - o >= 1 and j + 3 <= n:
                    if stream[j + 1] == (crc & 0xFF) and stream[j + 2] == (crc >> 8):
                        out.append({'offset': o, 'end': j + 3, 'uid': stream[o], 'tid': None, 'pid': None,
                                    'pdu': stream[o + 1:j + 1]})
        return out
    if framing == 'ascii':
        starts = [i for i in range(n) if stream[i] == 0x3A]
        for o in starts:
            e = stream.find(b'\r\n', o)
            while e != -1 and e - o <= limit:
                try:
                    p = parse_one('ascii', stream[o:e + 2])
                    out.append({'offset': o, 'end': e + 2, 'uid': p['uid'], 'tid': None, 'pid': None, 'pdu': p['pdu']})
                except FrameError:
                    pass
                e = stream.find(b'\r\n', e + 1)
        return out
    if framing == 'binary':
        for o in range(n):
            if stream[o] != 0x7B:
                continue
            for e in range(o + 5, min(n, o + limit)):
                if stream[e] == 0x7D:
                    try:
                        p = parse_one('binary', stream[o:e + 1])
                        out.append({'offset': o, 'end': e + 1, 'uid': p['uid'], 'tid': None, 'pid': None, 'pdu': p['pdu']})
                    except FrameError:
                        pass
        return out
    if framing == 'tls':
        return [{'offset': 0, 'end': n, 'uid': None, 'tid': None, 'pid': None, 'pdu': stream}] if n else []
    raise ValueError(framing)


def parse_many(framing, data, direction='rsp'):
    """Strictly parse `data` as a concatenation of one or more whole frames (a front-end may write several
    responses with one send call).  RTU has no length field: a frame boundary is accepted where the CRC matches
    AND the PDU is a well-formed PDU of that direction (independent spec codec), trying the shortest first."""
    out = []
    rest = data
    if framing == 'tls':
        return [parse_one('tls', data)]
    while rest:
        if framing == 'tcp':
            if len(rest) < 8:
                raise FrameError('trailing bytes that are not a frame: %s' % rest.hex()[:40])
            ln = struct.unpack('>H', rest[4:6])[0]
            n = 6 + ln
            out.append(parse_one('tcp', rest[:n]))
        elif framing == 'ascii':
            e = rest.find(b'\r\n')
            if e == -1:
                raise FrameError('no CR LF')
            n = e + 2
            out.append(parse_one('ascii', rest[:n]))
        elif framing == 'binary':
            # frames are delimiter-free inside in everything the checks judge
            e = rest.find(b'}', 5)
            while e != -1:
                try:
                    out.append(parse_one('binary', rest[:e + 1]))
                    break
                except FrameError:
                    e = rest.find(b'}', e + 1)
            if e == -1:
                raise FrameError('no complete binary frame in %s' % rest.hex()[:40])
            n = e + 1
        elif framing == 'rtu':
            from vlib import specpdu
            n = None
            for cand in range(4, min(len(rest), 260) + 1):
                if crc_wire(rest[:cand - 2]) == rest[cand - 2:cand]:
                    try:
                        specpdu.decode(direction, rest[1:cand - 2])
                    except specpdu.SpecError:
                        if cand != len(rest):
                            continue
                    n = cand
                    break
            if n is None:
                raise FrameError('no RTU frame with a matching CRC at the head of %s' % rest.hex()[:40])
            out.append(parse_one('rtu', rest[:n]))
        else:
            raise ValueError(framing)
        rest = rest[n:]
    if not out:
        raise FrameError('empty write')
    return out
