"""Modbus data model (reference) + construction of the matching pymodbus datastore.

layout = {'zero_mode': bool,
          'tables': {'c': blk, 'd': blk, 'h': blk, 'i': blk},
          'share': None | 'bits' | 'regs' | 'both'}     # c+d (resp. h+i) live on ONE block
blk    = {'shape': 'seq', 'start': int, 'values': [...]} |
         {'shape': 'sparse', 'keys': [...], 'values': [...]}

The model keeps, per table, a dict  block-address -> value.  Protocol address a maps to
block address a+1 unless zero_mode (the documented pymodbus convention).
"""
import struct

TABLE_OF_FC = {1: 'c', 5: 'c', 15: 'c', 2: 'd', 4: 'i', 3: 'h', 6: 'h', 16: 'h', 22: 'h', 23: 'h'}
DATA_FCS = sorted(TABLE_OF_FC)
READ_LIMIT = {1: 2000, 2: 2000, 3: 125, 4: 125}


class DefaultCells(object):
    """Model of the library's default block (address 0, 65536 cells of 0) that only stores what was written."""

    def __init__(self):
        self.w = {}

    def __contains__(self, k):
        return 0 <= k < 65536

    def __getitem__(self, k):
        if not 0 <= k < 65536:
            raise KeyError(k)
        return self.w.get(k, 0)

    def __setitem__(self, k, v):
        self.w[k] = v

    def items(self):
        return self.w.items()

    def __iter__(self):
        return iter(range(65536))


def block_cells(b):
    if b['shape'] == 'default':
        return DefaultCells()
    if b['shape'] == 'seq':
        return dict(zip(range(b['start'], b['start'] + len(b['values'])), b['values']))
    return dict(zip(b['keys'], b['values']))


def make_block(b, initial=None):
    """initial: the caller's own list of initial values (may be handed to several blocks - each block owns its cells)"""
    from pymodbus.datastore.store import ModbusSequentialDataBlock, ModbusSparseDataBlock
    if b['shape'] == 'seq':
        return ModbusSequentialDataBlock(b['start'], initial if initial is not None else list(b['values']))
    return ModbusSparseDataBlock(dict(zip(b['keys'], b['values'])))


def make_slave(layout, slave_class=None):
    from pymodbus.datastore.context import ModbusSlaveContext
    cls = slave_class or ModbusSlaveContext
    t = layout['tables']
    share = layout.get('share')
    if any(t[k]['shape'] == 'default' for k in 'cdhi'):
        # tables left to the library default are simply not passed
        kw = {}
        for k, name in (('c', 'co'), ('d', 'di'), ('h', 'hr'), ('i', 'ir')):
            if t[k]['shape'] != 'default':
                kw[name] = make_block(t[k])
        return cls(zero_mode=layout['zero_mode'], **kw)
    # 'same_initial': the application initialises two SEPARATE tables from one and the same Python list of values
    same = layout.get('same_initial')
    ini_b = list(t['c']['values']) if same in ('bits', 'both') and t['c']['shape'] == 'seq' and t['d'] == t['c'] else None
    ini_r = list(t['h']['values']) if same in ('regs', 'both') and t['h']['shape'] == 'seq' and t['i'] == t['h'] else None
    co = make_block(t['c'], ini_b)
    di = co if share in ('bits', 'both') else make_block(t['d'], ini_b)
    hr = make_block(t['h'], ini_r)
    ir = hr if share in ('regs', 'both') else make_block(t['i'], ini_r)
    return cls(di=di, co=co, hr=hr, ir=ir, zero_mode=layout['zero_mode'])


class SlaveModel(object):
    def __init__(self, layout):
        t = layout['tables']
        share = layout.get('share')
        if any(t[k]['shape'] == 'default' for k in 'cdhi'):
            share = None
        self.off = 0 if layout['zero_mode'] else 1
        self.tab = {}
        self.tab['c'] = block_cells(t['c'])
        self.tab['d'] = self.tab['c'] if share in ('bits', 'both') else block_cells(t['d'])
        self.tab['h'] = block_cells(t['h'])
        self.tab['i'] = self.tab['h'] if share in ('regs', 'both') else block_cells(t['i'])

    def dump(self):
        return dict((k, dict(v)) for k, v in self.tab.items())

    def in_range(self, table, a, n):
        cells = self.tab[table]
        return n >= 0 and all((a + self.off + i) in cells for i in range(n))

    def read(self, table, a, n):
        cells = self.tab[table]
        return [cells[a + self.off + i] for i in range(n)]

    def write(self, table, a, vals):
        cells = self.tab[table]
        for i, v in enumerate(vals):
            cells[a + self.off + i] = v

    # ------------------------------------------------------------------
    def classify(self, req):
        """req: abstract request (see abstract_request). Returns (outcomes, primary):
        outcomes = set of acceptable outcomes among 'normal', 1, 2, 3; primary = the spec-priority one."""
        fc = req['fc']
        if fc not in TABLE_OF_FC:
            return set([1]), 1
        t = TABLE_OF_FC[fc]
        faults = []
        if fc in (1, 2, 3, 4):
            if not 1 <= req['quantity'] <= READ_LIMIT[fc]:
                faults.append(3)
            if not self.in_range(t, req['address'], req['quantity']):
                faults.append(2)
        elif fc == 5:
            if req['value'] not in (0x0000, 0xFF00):
                faults.append(3)
            if not self.in_range(t, req['address'], 1):
                faults.append(2)
        elif fc in (6, 22):
            if not self.in_range(t, req['address'], 1):
                faults.append(2)
        elif fc == 15:
            q = req['quantity']
            if not 1 <= q <= 1968 or req['byte_count'] != (q + 7) // 8:
                faults.append(3)
            if not self._range_q(t, req['address'], q):
                faults.append(2)
        elif fc == 16:
            q = req['quantity']
            if not 1 <= q <= 123 or req['byte_count'] != 2 * q:
                faults.append(3)
            if not self._range_q(t, req['address'], q):
                faults.append(2)
        elif fc == 23:
            rq, wq = req['read_quantity'], req['quantity']
            if not 1 <= rq <= 125 or not 1 <= wq <= 121 or req['byte_count'] != 2 * wq:
                faults.append(3)
            if not self._range_q(t, req['read_address'], rq) or not self._range_q(t, req['address'], wq):
                faults.append(2)
        if not faults:
            return set(['normal']), 'normal'
        return set(faults), (3 if 3 in faults else 2)

    def _range_q(self, t, a, q):
        return self.in_range(t, a, q)

    def apply(self, req):
        """Execute a request the model classifies as normal; returns the normal response (kind, fields)."""
        fc = req['fc']
        t = TABLE_OF_FC[fc]
        if fc in (1, 2):
            return 'rsp:%d' % fc, {'bits': [bool(x) for x in self.read(t, req['address'], req['quantity'])]}
        if fc in (3, 4):
            return 'rsp:%d' % fc, {'registers': [int(x) for x in self.read(t, req['address'], req['quantity'])]}
        if fc == 5:
            self.write(t, req['address'], [req['value'] == 0xFF00])
            return 'rsp:5', {'address': req['address'], 'value': req['value']}
        if fc == 6:
            self.write(t, req['address'], [req['value']])
            return 'rsp:6', {'address': req['address'], 'value': req['value']}
        if fc == 15:
            self.write(t, req['address'], [bool(b) for b in req['bits'][:req['quantity']]])
            return 'rsp:15', {'address': req['address'], 'quantity': req['quantity']}
        if fc == 16:
            self.write(t, req['address'], list(req['registers'][:req['quantity']]))
            return 'rsp:16', {'address': req['address'], 'quantity': req['quantity']}
        if fc == 22:
            cur = int(self.read(t, req['address'], 1)[0])
            new = (cur & req['and_mask']) | (req['or_mask'] & (~req['and_mask'] & 0xFFFF))
            self.write(t, req['address'], [new])
            return 'rsp:22', {'address': req['address'], 'and_mask': req['and_mask'], 'or_mask': req['or_mask']}
        if fc == 23:
            self.write(t, req['address'], list(req['registers'][:req['quantity']]))
            return 'rsp:23', {'registers': [int(x) for x in self.read(t, req['read_address'], req['read_quantity'])]}
        raise ValueError(fc)


def abstract_request(pdu):
    """Parse a raw request PDU (as the spec lays it out) into the abstract form used by
    classify/apply.  Returns None when the PDU is too short to carry its fixed fields."""
    fc = pdu[0]
    b = pdu[1:]
    try:
        if fc in (1, 2, 3, 4):
            a, q = struct.unpack('>HH', b[:4])
            return {'fc': fc, 'address': a, 'quantity': q, 'wellformed': len(b) == 4}
        if fc in (5, 6):
            a, v = struct.unpack('>HH', b[:4])
            return {'fc': fc, 'address': a, 'value': v, 'wellformed': len(b) == 4}
        if fc == 15:
            a, q, bc = struct.unpack('>HHB', b[:5])
            data = b[5:]
            bits = []
            for byte in data:
                for j in range(8):
                    bits.append(bool((byte >> j) & 1))
            return {'fc': fc, 'address': a, 'quantity': q, 'byte_count': bc, 'bits': bits, 'data_len': len(data),
                    'wellformed': len(data) == bc == (q + 7) // 8}
        if fc == 16:
            a, q, bc = struct.unpack('>HHB', b[:5])
            data = b[5:]
            regs = [struct.unpack('>H', data[i:i + 2])[0] for i in range(0, len(data) - 1, 2)]
            return {'fc': fc, 'address': a, 'quantity': q, 'byte_count': bc, 'registers': regs, 'data_len': len(data),
                    'wellformed': len(data) == bc == 2 * q}
        if fc == 22:
            a, x, y = struct.unpack('>HHH', b[:6])
            return {'fc': fc, 'address': a, 'and_mask': x, 'or_mask': y, 'wellformed': len(b) == 6}
        if fc == 23:
            ra, rq, wa, wq, bc = struct.unpack('>HHHHB', b[:9])
            data = b[9:]
            regs = [struct.unpack('>H', data[i:i + 2])[0] for i in range(0, len(data) - 1, 2)]
            return {'fc': fc, 'read_address': ra, 'read_quantity': rq, 'address': wa, 'quantity': wq, 'byte_count': bc,
                    'registers': regs, 'data_len': len(data), 'wellformed': len(data) == bc == 2 * wq}
    except struct.error:
        return None
    return {'fc': fc, 'wellformed': True}


def dump_slave(slave, window=None):
    """Full dump of the four real tables: {'c': {addr: value}, ...}; with `window` (a set of block
    addresses) only those cells are read - used for the 65536-cell default blocks."""
    out = {}
    for k in 'cdhi':
        blk = slave.store[k]
        if window is not None and not isinstance(blk.values, dict) and len(blk.values) > 5000:
            out[k] = dict((a, blk.values[a - blk.address]) for a in window if 0 <= a - blk.address < len(blk.values))
        else:
            out[k] = dict((int(a), v) for a, v in blk)
    return out


def dump_model(ref, window=None):
    out = {}
    for k in 'cdhi':
        cells = ref.tab[k]
        if isinstance(cells, DefaultCells):
            out[k] = dict((a, cells[a]) for a in (window or ()) if a in cells)
        else:
            out[k] = dict(cells)
    return out


def norm_dump(d):
    """Comparable form (bools and ints compared by value)."""
    return dict((k, dict((a, int(v)) for a, v in t.items())) for k, t in d.items())
