#!/venv/bin/python
"""Runs every registered quick check against every seeded defect in /verif/seeded (scratch copies,
8 seeds in parallel) and writes seeded/RESULTS.md + seeded/results.json."""
import json, os, shutil, subprocess, sys, tempfile, time
from concurrent.futures import ThreadPoolExecutor
ALL = ['C%02d' % i for i in range(1, 21)]
def one(seed):
    d = tempfile.mkdtemp(prefix='sm_', dir='/tmp')
    out = {}
    try:
        subprocess.run('git -C /repo archive HEAD | tar -x -C %s && cd %s && git init -q . && git apply /verif/seeded/%s/patch.diff' % (d, d, seed), shell=True, check=True, capture_output=True)
        own = seed.split('-')[0]
        order = [own] + [c for c in ALL if c != own]
        only = ([own] if sys.argv[2] == 'own' else sys.argv[2].split(',')) if len(sys.argv) > 2 else order
        for c in order:
            if c not in only:
                continue
            env = dict(os.environ, VERIF_REPO=d, VERIF_OUT=d, VERIF_SHARDS='2')
            t0 = time.time()
            r = subprocess.run(['/venv/bin/python', '/verif/run_check.py', c], env=env, capture_output=True, text=True, cwd='/verif')
            line = [l.strip() for l in r.stdout.splitlines() if 'discrepancy' in l][:1]
            out[c] = {'rc': r.returncode, 's': round(time.time() - t0), 'why': line[0][:200] if line else ''}
    finally:
        shutil.rmtree(d, ignore_errors=True)
    return seed, out
def main():
    seeds = sorted(x for x in os.listdir('/verif/seeded') if os.path.isdir('/verif/seeded/' + x))
    if len(sys.argv) > 1 and sys.argv[1] != 'all':
        seeds = [s for s in seeds if s in sys.argv[1].split(',')]
    res = {}
    path = os.environ.get('SEEDMATRIX_OUT', '/verif/seeded/results.json')
    if os.path.exists(path):
        res = json.load(open(path))
    with ThreadPoolExecutor(6) as ex:
        for seed, out in ex.map(one, seeds):
            res.setdefault(seed, {}).update(out)
            print(seed, {c: v['rc'] for c, v in out.items() if v['rc']})
            json.dump(res, open(path, 'w'), indent=1, sort_keys=True)
    lines = ['# Seeded defects x checks (quick tier, VERIF_SHARDS=2)', '',
             'rc 1 = VIOLATION reported, 0 = held, 2 = harness error. Own property first.', '',
             '| seed | caught by the check of its own property | other checks that report a violation | first discrepancy of the own check |', '|---|---|---|---|']
    for seed in sorted(res):
        own = seed.split('-')[0]
        o = res[seed].get(own, {})
        others = [c for c, v in sorted(res[seed].items()) if c != own and v['rc'] == 1]
        errs = [c for c, v in sorted(res[seed].items()) if v['rc'] == 2]
        lines.append('| %s | %s | %s%s | %s |' % (seed, {1: 'yes', 0: 'NO', 2: 'harness error'}.get(o.get('rc'), '?'), ', '.join(others) or '-',
                                              (' (harness error: %s)' % ', '.join(errs)) if errs else '', o.get('why', '').replace('|', '/')[:160]))
    if 'SEEDMATRIX_OUT' not in os.environ:
        open('/verif/seeded/RESULTS.md', 'w').write('\n'.join(lines) + '\n')
main()
