#!/venv/bin/python
"""seedrun.py <seed-dir> [--checks C01,C02|all] [--skip-tests] [--tier quick]
Confirms a seeded defect (patch.diff + demo.py) and runs checks against it on a scratch copy
of /repo (never touches /repo or /verif outputs)."""
import json, os, shutil, subprocess, sys, tempfile, time

def sh(cmd, **kw):
    return subprocess.run(cmd, shell=True, capture_output=True, text=True, **kw)

def main():
    a = sys.argv[1:]
    seed = os.path.abspath(a[0])
    checks = None
    skip_tests = '--skip-tests' in a
    tier = 'quick'
    if '--checks' in a:
        checks = a[a.index('--checks') + 1]
    if '--tier' in a:
        tier = a[a.index('--tier') + 1]
    d = tempfile.mkdtemp(prefix='sx_', dir='/tmp')
    res = {'seed': seed}
    try:
        r = sh('git -C /repo archive HEAD | tar -x -C %s' % d)
        r = sh('git init -q . && git apply %s/patch.diff' % seed, cwd=d)
        res['applies'] = r.returncode == 0
        if r.returncode:
            print('PATCH DOES NOT APPLY', r.stderr[:300]); print(json.dumps(res)); return 1
        r1 = sh('PYTHONPATH=%s timeout 300 /venv/bin/python %s/demo.py' % (d, seed), cwd='/tmp')
        r0 = sh('PYTHONPATH=/repo timeout 300 /venv/bin/python %s/demo.py' % seed, cwd='/tmp')
        res['demo_with'] = r1.returncode
        res['demo_without'] = r0.returncode
        print('demo with patch rc=%d, without rc=%d' % (r1.returncode, r0.returncode))
        if r1.returncode == 0 or r0.returncode != 0:
            print((r1.stdout + r1.stderr)[-400:]); print((r0.stdout + r0.stderr)[-400:])
        if not skip_tests:
            rt = sh('/verif/tools/basecheck.sh %s' % d)
            res['tests_pass'] = rt.returncode == 0
            print('baseline tests:', rt.stdout.strip().splitlines()[0] if rt.stdout else rt.stderr[:200])
        ids = ['C%02d' % i for i in range(1, 21)] if checks == 'all' else (checks.split(',') if checks else [])
        det = {}
        for c in ids:
            t0 = time.time()
            env = dict(os.environ, VERIF_REPO=d, VERIF_OUT=d)
            r = subprocess.run(['/venv/bin/python', '/verif/run_check.py', c, '--tier', tier], env=env, capture_output=True, text=True, cwd='/verif')
            det[c] = r.returncode
            line = [l for l in r.stdout.splitlines() if 'discrepancy' in l][:1]
            print('%s rc=%d %.0fs %s' % (c, r.returncode, time.time() - t0, line[0][:230] if line else ''))
        res['checks'] = det
        print(json.dumps(res))
        return 0
    finally:
        shutil.rmtree(d, ignore_errors=True)
sys.exit(main())
