"""C05 Invalid requests get the right exception and change nothing."""
import struct

from hypothesis import strategies as st

from vlib import frontends, gens, kinds, model, pm, refframe, specpdu
from vlib.engine import Disc, Outcome
from checks import c04

PID = 'C05'
RULE = ('Hypothesis: datastore layout + a valid request history (as C04) followed by ONE boundary-directed request given as a '
        'RAW PDU: quantities {0,1,max-1,max,max+1,0xFFFF,run length,run length+1}, addresses {start-1,start,end-q,end-q+1,'
        'end-1,end,0,65535} around a populated run, byte counts {consistent,n-1,n+1,0,255} with the data length following the '
        'byte-count field or the quantity field, every single-coil value word, unassigned function codes 1..127; executed '
        'through ServerDecoder + request.execute. Second shape: a datastore whose validate/getValues/setValues raise, behind '
        'each of the 7 server front-ends. Sweep: all 65536 single-coil value words x {valid, invalid address}. Oracle: '
        'vlib/model.classify gives the set of acceptable outcomes (exception 01/02/03, or normal -> exact response + state); '
        'the exception must carry fc|0x80; whenever the real answer is an exception all four tables are unchanged; datastore '
        'failure -> exception 04. Two simultaneous faults: either applicable code accepted. Non-trivial: request the model '
        'rejects, or a boundary-valid request (quantity = max or last cell of a run); distinct by SHA-1. Raising datastores raise exceptions of several shapes (no / one / several arguments, custom class, \'%\' in the text). A PDU whose length contradicts its own byte-count field may also be refused by the decoder.')
ASSUMPTIONS = ['data fields are always long enough for the decoder (shorter PDUs are malformed input, C12)',
               'Twisted/asyncio exception-escape semantics as modelled in vlib/frontends.py']
BUDGET = {'quick': 4000, 'thorough': 20000}

MAXQ = {1: 2000, 2: 2000, 3: 125, 4: 125, 15: 1968, 16: 123}
ASSIGNED = set([1, 2, 3, 4, 5, 6, 7, 8, 11, 12, 15, 16, 17, 20, 21, 22, 23, 24, 43])
UNASSIGNED = [f for f in range(1, 128) if f not in ASSIGNED]


@st.composite
def _addr_q(draw, lay, table, maxq, fixed_q=None):
    rs = c04._proto_runs(lay, table)
    if rs:
        a0, n = draw(st.sampled_from(rs[:3])) if len(rs) > 1 else rs[0]
    else:
        a0, n = 0, 1
    if fixed_q is not None:
        q = fixed_q
    else:
        q = draw(st.one_of(st.sampled_from([0, 1, 2, maxq - 1, maxq, maxq + 1, 0xFFFF, n, n + 1, max(1, n - 1)]),
                           st.integers(1, max(1, min(n, maxq))), st.integers(0, maxq + 2)))
    qq = min(q, 70000)
    cands = [a0 - 1, a0, a0 + n - qq, a0 + n - qq + 1, a0 + n - 1, a0 + n, 0, 65535, 65536 - qq, 65535 - qq]
    if len(rs) >= 2 and fixed_q is None and draw(st.integers(0, 3)) == 0:
        # a range that starts and ends on populated cells but spans a gap between two runs
        i = draw(st.integers(0, len(rs) - 2))
        j = draw(st.integers(i + 1, len(rs) - 1))
        first = rs[i][0] + draw(st.integers(0, rs[i][1] - 1))
        last = rs[j][0] + draw(st.integers(0, rs[j][1] - 1))
        if 1 <= last - first + 1 <= max(maxq, 1):
            return max(0, first), last - first + 1
    a = draw(st.one_of(st.sampled_from(cands), st.integers(a0 - 2, a0 + n + 2)))
    a = max(0, min(65535, a))
    return a, q


@st.composite
def _bad_request(draw, lay):
    """-> raw request PDU (hex) built with specpdu, possibly inconsistent."""
    which = draw(st.sampled_from([1, 2, 3, 4, 5, 5, 6, 15, 15, 16, 16, 22, 23, 23, 'unassigned']))
    if which == 'unassigned':
        fc = draw(st.sampled_from(UNASSIGNED))
        return (bytes([fc]) + draw(st.binary(min_size=0, max_size=8))).hex()
    fc = which
    t = model.TABLE_OF_FC[fc]
    if fc in (1, 2, 3, 4):
        a, q = draw(_addr_q(lay, t, MAXQ[fc]))
        return specpdu.encode('req:%d' % fc, {'address': a, 'quantity': q}).hex()
    if fc == 5:
        a, _ = draw(_addr_q(lay, t, 1, fixed_q=1))
        v = draw(st.one_of(st.sampled_from([0xFF00, 0, 1, 0xFF, 0xFF01, 0xFFFF, 0x00FF, 0xFE00, 0x0100]), st.integers(0, 0xFFFF)))
        return specpdu.encode('req:5', {'address': a, 'value': v}).hex()
    if fc == 6:
        a, _ = draw(_addr_q(lay, t, 1, fixed_q=1))
        return specpdu.encode('req:6', {'address': a, 'value': draw(gens.u16())}).hex()
    if fc == 22:
        a, _ = draw(_addr_q(lay, t, 1, fixed_q=1))
        return specpdu.encode('req:22', {'address': a, 'and_mask': draw(gens.u16()), 'or_mask': draw(gens.u16())}).hex()
    if fc == 15:
        a, q = draw(_addr_q(lay, t, 1968))
        need = (q + 7) // 8
        bc = draw(st.sampled_from([need, need, need - 1, need + 1, 0, 255])) & 0xFF
        follow = draw(st.sampled_from(['bc', 'q']))
        ln = bc if follow == 'bc' else min(need, 255)
        data = draw(st.binary(min_size=ln, max_size=ln))
        return specpdu.encode('req:15', {'address': a, 'bits': [], '_quantity': q, '_byte_count': bc, '_data': data.hex()}).hex()
    if fc == 16:
        a, q = draw(_addr_q(lay, t, 123))
        q = min(q, 127)
        need = 2 * q
        bc = draw(st.sampled_from([need, need, need - 1, need + 1, need + 2, 0, 255])) & 0xFF
        ln = need if draw(st.booleans()) else max(need, bc)
        data = draw(st.binary(min_size=ln, max_size=ln))
        return specpdu.encode('req:16', {'address': a, 'registers': [], '_quantity': q, '_byte_count': bc, '_data': data.hex()}).hex()
    if fc == 23:
        ra, rq = draw(_addr_q(lay, t, 125))
        wa, wq = draw(_addr_q(lay, t, 121))
        wq = min(wq, 127)
        need = 2 * wq
        bc = draw(st.sampled_from([need, need, need - 2, need + 2, need - 1, 0, 254])) & 0xFF
        ln = bc + (bc % 2)      # the decoder follows the byte-count field
        data = draw(st.binary(min_size=ln, max_size=ln))
        return specpdu.encode('req:23', {'read_address': ra, 'read_quantity': rq, 'write_address': wa, 'registers': [],
                                         '_quantity': wq, '_byte_count': bc, '_data': data.hex()}).hex()


@st.composite
def _pdu_case(draw):
    lay = draw(gens.layout(max_size=draw(st.sampled_from([12, 40, 300]))))
    n = draw(st.integers(0, 4))
    hist = [s for s in (draw(c04._step(lay)) for _ in range(n)) if s]
    return {'t': 'pdu', 'layout': lay, 'history': hist, 'pdu': draw(_bad_request(lay))}


@st.composite
def _fe04_case(draw):
    lay = draw(gens.layout(max_size=12))
    step = None
    for _ in range(4):
        step = draw(c04._step(lay))
        if step:
            break
    return {'t': 'fe04', 'layout': lay, 'frontend': draw(st.sampled_from(frontends.ALL)),
            'raise_in': draw(st.sampled_from(['validate', 'getValues', 'setValues'])),
            'exc': draw(st.sampled_from(['RuntimeError', 'KeyError', 'ValueError', 'IOError'])),
            # shape of the exception the datastore raises: one argument, none, several (OSError(errno, text)), non-string, a custom class
            'exc_args': draw(st.sampled_from(['one', 'one', 'none', 'two', 'three', 'tuple', 'custom', 'percent'])),
            'request': step, 'uid': draw(st.integers(1, 247)), 'tid': draw(gens.u16())}


def strategy(tier):
    return st.one_of(_pdu_case(), _pdu_case(), _pdu_case(), _pdu_case(), _pdu_case(), _fe04_case().filter(lambda c: c['request']))


def sweeps(tier):
    cases = []
    for blk in range(0, 0x10000, 4096):
        for valid in (True, False):
            cases.append({'t': 'coil-sweep', 'from': blk, 'to': blk + 4096, 'valid_address': valid})
    out = [('all-65536-single-coil-values-x-address-validity', cases, True)]
    lay = {'zero_mode': True, 'share': None, 'tables': dict((k, {'shape': 'seq', 'start': 10, 'values': [False if k in 'cd' else 0] * 2100}) for k in 'cdhi')}
    cases = []
    qmax = {1: 2100, 2: 2100, 3: 130, 4: 130}
    for fc in (1, 2, 3, 4):
        qs = range(0, qmax[fc] + 1) if tier == 'thorough' else list(range(0, 12)) + list(range(MAXQ[fc] - 3, MAXQ[fc] + 4)) + [qmax[fc]]
        for q in qs:
            for a in (10, 9, 2110 - max(q, 1), 2111 - max(q, 1)):
                cases.append({'t': 'pdu', 'layout': lay, 'history': [], 'pdu': specpdu.encode('req:%d' % fc, {'address': a, 'quantity': q}).hex()})
    out.append(('read-quantities-x-boundary-addresses', cases, tier == 'thorough'))
    # quantity x byte count x data length grids for the three multiple-write functions
    cases = []
    lay_big = lay
    lay = {'zero_mode': True, 'share': None, 'tables': dict((k, {'shape': 'seq', 'start': 10, 'values': [False if k in 'cd' else 0] * 64}) for k in 'cdhi')}
    for q in range(0, 41):
        need = (q + 7) // 8
        for bc in list(range(0, 7)) + [255]:
            for ln in sorted(set([bc, need])):
                cases.append({'t': 'pdu', 'layout': lay, 'history': [], 'pdu': specpdu.encode('req:15', {
                    'address': 12, 'bits': [], '_quantity': q, '_byte_count': bc, '_data': ('a5' * ln)}).hex()})
    for q in range(0, 13):
        for bc in range(0, 28):
            for ln in sorted(set([2 * q, max(2 * q, bc)])):
                cases.append({'t': 'pdu', 'layout': lay, 'history': [], 'pdu': specpdu.encode('req:16', {
                    'address': 12, 'registers': [], '_quantity': q, '_byte_count': bc, '_data': ('a5' * ln)}).hex()})
                cases.append({'t': 'pdu', 'layout': lay, 'history': [], 'pdu': specpdu.encode('req:23', {
                    'read_address': 10, 'read_quantity': 3, 'write_address': 12, 'registers': [], '_quantity': q,
                    '_byte_count': bc, '_data': ('a5' * (bc + bc % 2))}).hex()})
    out.append(('multiple-write-quantity-x-bytecount-x-datalen', cases, True))
    # FC23: both ranges swept independently across the end of the block (block = cells 10..73)
    cases = []
    for rq in (1, 2, 3, 5, 8):
        for wq in (1, 2, 3, 5):
            for ra in (9, 10, 74 - rq - 1, 74 - rq, 74 - rq + 1, 74 - rq + 2, 73, 74):
                for wa in (9, 10, 74 - wq - 1, 74 - wq, 74 - wq + 1, 73, 74):
                    cases.append({'t': 'pdu', 'layout': lay, 'history': [], 'pdu': specpdu.encode('req:23', {
                        'read_address': ra, 'read_quantity': rq, 'write_address': wa, 'registers': [0x1111 * (i + 1) for i in range(wq)]}).hex()})
    out.append(('fc23-read-range-x-write-range-around-block-end', cases, True))
    # write quantities swept across every limit with consistent byte counts on a table large enough to hold them
    cases = []
    for q in list(range(1960, 1976)) + list(range(1996, 2004)) + [2040]:
        cases.append({'t': 'pdu', 'layout': lay_big, 'history': [], 'pdu': specpdu.encode('req:15', {'address': 12, 'bits': [bool(i % 3) for i in range(q)]}).hex()})
    for q in range(116, 128):
        regs = [(i * 3 + 1) & 0xFFFF for i in range(q)]
        cases.append({'t': 'pdu', 'layout': lay_big, 'history': [], 'pdu': specpdu.encode('req:16', {'address': 12, 'registers': regs}).hex()})
        for rq in (1, 124, 125, 126):
            cases.append({'t': 'pdu', 'layout': lay_big, 'history': [], 'pdu': specpdu.encode('req:23', {
                'read_address': 20, 'read_quantity': rq, 'write_address': 300, 'registers': regs}).hex()})
    out.append(('write-quantities-across-the-limits', cases, True))
    cases = [{'t': 'pdu', 'layout': lay, 'history': [], 'pdu': (bytes([fc]) + b'\x00\x0a\x00\x01').hex()} for fc in UNASSIGNED]
    out.append(('every-unassigned-function-code', cases, True))
    return out


def _exc_of(rsp):
    from pymodbus.pdu import ExceptionResponse
    if isinstance(rsp, ExceptionResponse):
        return rsp.function_code, rsp.exception_code
    return None


def _kf(areq, real_is_normal, outcomes):
    return None


def _run_pdu(case):
    lay = case['layout']
    pdu = bytes.fromhex(case['pdu'])
    labels = ['pdu', 'fc:%d' % pdu[0] if pdu[0] in model.TABLE_OF_FC else 'fc:unassigned']
    discs = []
    slave = model.make_slave(lay)
    ref = model.SlaveModel(lay)
    from pymodbus.factory import ServerDecoder
    dec = ServerDecoder()
    try:
        for kind, f in case['history']:
            hp = specpdu.encode(kind, f)
            req = dec.decode(hp)
            req.execute(slave)
            ref.apply(model.abstract_request(hp))
        if model.norm_dump(model.dump_slave(slave)) != model.norm_dump(ref.dump()):
            labels.append('history-diverged(C04 business)')
            return Outcome([], labels, False)
        before = model.norm_dump(model.dump_slave(slave))
        areq = model.abstract_request(pdu)
        if areq is None:
            from vlib.engine import HarnessError
            raise HarnessError('generator produced a PDU too short for its fixed fields: ' + pdu.hex())
        outcomes, primary = ref.classify(areq)
        labels.append('expect:%s' % primary)
        if len(outcomes) > 1:
            labels.append('two-faults')
        req = dec.decode(pdu)
        if req is None:
            if areq.get('data_len') is not None and areq['data_len'] != areq['byte_count']:
                # the PDU is longer or shorter than its own byte count says: malformed below the level this property speaks
                # about (its "byte count contradicts quantity" is a well-delimited request); refusing to decode it is allowed (C12)
                return Outcome([], labels + ['length-malformed-pdu-refused'], False)
            discs.append(Disc('not-decoded', 'request %s: decoder returned None' % pdu.hex()[:60]))
            return Outcome(discs, labels, True)
        rsp = req.execute(slave)
        after = model.norm_dump(model.dump_slave(slave))
        ex = _exc_of(rsp)
        nt = primary != 'normal'
        if ex is not None:
            fcode, code = ex
            if fcode != (pdu[0] | 0x80):
                discs.append(Disc('exception-function-code', 'request %s answered with function code %#x' % (pdu.hex()[:40], fcode)))
            if code not in outcomes:
                discs.append(Disc('wrong-outcome', 'request %s (%s): exception %d, model allows %r' % (pdu.hex()[:60], _brief(areq), code, sorted(outcomes, key=str))))
            if after != before:
                discs.append(Disc('exception-but-state-changed', 'request %s answered exception %d but %s' % (pdu.hex()[:60], code, c04._diff(after, before))))
        else:
            if 'normal' not in outcomes:
                discs.append(Disc('wrong-outcome', 'request %s (%s): normal response %s, model requires exception %r' % (
                    pdu.hex()[:60], _brief(areq), type(rsp).__name__, sorted(outcomes, key=str))))
            else:
                wk, wf = ref.apply(areq)
                gk, gf = specpdu.decode('rsp', bytes([rsp.function_code]) + rsp.encode())
                if gk != wk or not kinds.fields_equal(c04._trim(gf, wf), wf):
                    discs.append(Disc('response', 'request %s: response %s %r, model %s %r' % (pdu.hex()[:60], gk, c04._short(gf), wk, c04._short(wf))))
                if after != model.norm_dump(ref.dump()):
                    discs.append(Disc('state', 'request %s: %s' % (pdu.hex()[:60], c04._diff(after, model.norm_dump(ref.dump())))))
                fc = pdu[0]
                if fc in MAXQ and areq.get('quantity') == MAXQ[fc]:
                    nt = True
                    labels.append('boundary-valid')
        return Outcome(discs, labels, nt)
    except Exception as e:
        from vlib.engine import HarnessError
        if isinstance(e, HarnessError):
            raise
        discs.append(Disc('raises', 'request %s: %s: %s' % (pdu.hex()[:60], type(e).__name__, e)))
        return Outcome(discs, labels, True)


def _brief(a):
    return ', '.join('%s=%r' % (k, a[k]) for k in ('address', 'quantity', 'byte_count', 'data_len', 'value', 'read_address', 'read_quantity') if k in a)


def _run_coil_sweep(case):
    from pymodbus.factory import ServerDecoder
    lay = {'zero_mode': True, 'share': None, 'tables': dict((k, {'shape': 'seq', 'start': 0, 'values': [True if k in 'cd' else 0] * 4}) for k in 'cdhi')}
    slave = model.make_slave(lay)
    dec = ServerDecoder()
    addr = 2 if case['valid_address'] else 9
    discs = []
    for v in range(case['from'], case['to']):
        slave.store['c'].values[2] = True
        pdu = struct.pack('>BHH', 5, addr, v)
        rsp = dec.decode(pdu).execute(slave)
        ex = _exc_of(rsp)
        cell = slave.store['c'].values[2]
        if v in (0, 0xFF00):
            want = None if case['valid_address'] else (0x85, 2)
        else:
            want = (0x85, 3) if case['valid_address'] else 'either'
        ok = (ex == want) if want != 'either' else (ex in ((0x85, 2), (0x85, 3)))
        if ok and ex is not None and cell is not True:
            ok = False
        if ok and ex is None and bool(cell) != (v == 0xFF00):
            ok = False
        if not ok:
            discs.append(Disc('coil-value', 'write single coil value %#06x at %s address: answered %r, coil now %r' % (
                v, 'valid' if case['valid_address'] else 'invalid', ex, cell)))
            break
    return Outcome(discs, ['coil-sweep'], True)


def _run_fe04(case):
    from pymodbus.datastore import ModbusServerContext
    from pymodbus.datastore.context import ModbusSlaveContext
    pm.reset_globals()
    lay = case['layout']
    kind, f = case['request']
    fe = case['frontend']
    labels = ['fe04', 'frontend:' + fe, 'raise_in:' + case['raise_in']]
    exc_base = {'RuntimeError': RuntimeError, 'KeyError': KeyError, 'ValueError': ValueError, 'IOError': IOError}[case['exc']]
    which = case['raise_in']
    shape = case.get('exc_args', 'one')
    labels.append('exception-args:' + shape)

    class StoreFault(Exception):
        def __init__(self, table, address):
            Exception.__init__(self, table, address)
            self.table, self.address = table, address

        def __str__(self):
            return 'table %s address %d' % (self.table, self.address)

    def exc_cls(text):
        if shape == 'none':
            return exc_base()
        if shape == 'two':
            return exc_base(5, text)
        if shape == 'three':
            return exc_base(5, text, 'x')
        if shape == 'tuple':
            return exc_base((1, 2))
        if shape == 'custom':
            return StoreFault('h', 7)
        if shape == 'percent':
            return exc_base('100% %s %d')
        return exc_base(text)

    class Failing(ModbusSlaveContext):
        calls = []

        def validate(self, *a, **k):
            Failing.calls.append('validate')
            if which == 'validate':
                raise exc_cls('datastore failure')
            return ModbusSlaveContext.validate(self, *a, **k)

        def getValues(self, *a, **k):
            Failing.calls.append('getValues')
            if which == 'getValues':
                raise exc_cls('datastore failure')
            return ModbusSlaveContext.getValues(self, *a, **k)

        def setValues(self, *a, **k):
            Failing.calls.append('setValues')
            if which == 'setValues':
                raise exc_cls('datastore failure')
            return ModbusSlaveContext.setValues(self, *a, **k)

    Failing.calls = []
    slave = model.make_slave(lay, Failing)
    before = model.norm_dump(model.dump_slave(slave))
    ctx = ModbusServerContext(slaves=slave, single=True)
    pdu = specpdu.encode(kind, f)
    frame = refframe.build('tcp', case['uid'], pdu, case['tid'], 0)
    discs = []
    res = frontends.run(fe, 'tcp', ctx, [(0, frame)])
    raised = which in Failing.calls
    labels.append('datastore-raised' if raised else 'datastore-not-reached')
    if res.escaped:
        discs.append(Disc('escaped', '%s: %r' % (fe, res.escaped[:2])))
    sent = res.sent.get(0, [])
    if len(sent) != 1:
        discs.append(Disc('responses', '%s: %d responses for one request' % (fe, len(sent))))
    else:
        try:
            p = refframe.parse_one('tcp', sent[0])
            if raised:
                if p['pdu'] != bytes([pdu[0] | 0x80, 4]):
                    discs.append(Disc('not-exception-04', '%s: datastore raised %s in %s, response PDU %s (expected %s)' % (
                        fe, case['exc'], which, p['pdu'].hex()[:40], bytes([pdu[0] | 0x80, 4]).hex())))
                elif model.norm_dump(model.dump_slave(slave)) != before and which != 'getValues':
                    discs.append(Disc('exception-but-state-changed', '%s: exception 04 but tables changed' % fe))
            if p['tid'] != case['tid'] or p['uid'] != case['uid']:
                discs.append(Disc('ids', '%s: response ids %r/%r' % (fe, p['tid'], p['uid'])))
        except refframe.FrameError as e:
            discs.append(Disc('response-frame', '%s: %s' % (fe, e)))
    pm.reset_globals()
    return Outcome(discs, labels, raised)


def run_case(case):
    if case['t'] == 'pdu':
        return _run_pdu(case)
    if case['t'] == 'coil-sweep':
        return _run_coil_sweep(case)
    return _run_fe04(case)
