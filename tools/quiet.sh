#!/bin/sh
# quietness: every quick check at the given seeds on the unchanged tree; prints only the summary lines
cd "$(dirname "$0")/.."
for s in "$@"; do
  for c in C01 C02 C03 C04 C05 C06 C07 C08 C09 C10 C11 C12 C13 C14 C15 C16 C17 C18 C19 C20; do
    VERIF_SEED=$s VERIF_OUT=/tmp/quiet_out /venv/bin/python run_check.py $c 2>&1 | grep -E "quick seed|VIOLATION|HARNESS" 
  done
done
