"""C01 PDU wire format conforms to the Modbus application protocol."""
from hypothesis import strategies as st

from vlib import gens, kinds, specpdu
from vlib.engine import Disc, Outcome

PID = 'C01'
RULE = ('Hypothesis: (kind, fields) over every registered request/response class, diagnostic sub-class and '
        'exception responses; 16-bit fields 0..65535 with boundary bias, quantities 0..max+k, bit lists 0..2040, '
        'register lists 0..127, file-record lists fitting a PDU, MEI object lists, exception codes 0..255. Oracle: '
        'vlib/specpdu (independent codec written from the spec tables, self-checked against the spec worked examples): '
        '(a) fc+encode() of the pymodbus object built through its public constructor == spec bytes; (b) decoder.decode(spec '
        'bytes) has the registered class and its public fields equal the wire fields (bits up to byte padding); in one case of '
        'ten a custom message class is first registered on ANOTHER decoder object (same code / unassigned code / diagnostic sub-function). '
        'Non-trivial: variable-length kind with >=1 element, or a fixed kind with a field outside {0,1}; distinct by SHA-1.')
ASSUMPTIONS = ['vlib/specpdu.py is the specification (its start-up self-check replays the worked examples of the spec)',
               'skip_encode payloads are caller-supplied bytes and out of scope']
BUDGET = {'quick': 12000, 'thorough': 40000}


def strategy(tier):
    return st.tuples(gens.message(spec_mode=True), st.sampled_from([None] * 9 + ['same-fc', 'unassigned-fc', 'diag-sub'])).map(
        lambda t: {'kind': t[0][0], 'fields': t[0][1], 'custom_on_other_decoder': t[1]})


def sweeps(tier):
    out = []
    lengths = range(0, 2041) if tier == 'thorough' else list(range(0, 70)) + [1967, 1968, 1969, 1999, 2000, 2001, 2039, 2040]
    cases = []
    for n in lengths:
        for pat in (0, 1, 2):
            bits = [False] * n if pat == 0 else ([True] * n if pat == 1 else [bool(i % 2) for i in range(n)])
            cases.append({'kind': 'rsp:1', 'fields': {'bits': bits}})
            cases.append({'kind': 'req:15', 'fields': {'address': 0x0102, 'bits': bits}})
    out.append(('bit-list-lengths', cases, tier == 'thorough'))
    cases = []
    for n in range(0, 128):
        regs = [(i * 257 + 1) & 0xFFFF for i in range(n)]
        cases.append({'kind': 'rsp:3', 'fields': {'registers': regs}})
        cases.append({'kind': 'req:16', 'fields': {'address': 0x0102, 'registers': regs}})
        cases.append({'kind': 'req:23', 'fields': {'read_address': 1, 'read_quantity': 2, 'write_address': 3,
                                                   'registers': regs[:123]}})
    out.append(('register-list-lengths', cases, True))
    cases = []
    for fc in range(1, 128):
        for code in (0, 1, 2, 3, 4, 5, 6, 8, 10, 11, 255):
            cases.append({'kind': 'exc', 'fields': {'fc': fc, 'code': code}})
    out.append(('exception-fc-x-codes', cases, True))
    cases = []
    for d in ('req', 'rsp'):
        for sub in sorted(kinds.DIAG_REQ):
            if d == 'rsp' and sub == 4:
                continue
            for w in (0, 1, 0xFF00, 0xA537, 0xFFFF):
                if sub == 1 and w not in (0, 0xFF00):
                    continue
                if sub == 21:
                    w = 3 if w else 4
                    if d == 'rsp' and w == 3:
                        continue
                cases.append({'kind': d + ':8', 'fields': {'sub': sub, 'data': [w]}})
    out.append(('diagnostic-subfunctions', cases, True))
    # Read Device Identification responses up to the exact fit (246 bytes of objects = a 253-byte PDU)
    cases = []
    for total in range(236, 247):
        for piece in (244, 121, 60):
            objs, left, oid = [], total, 0
            while left > 2:
                n = min(left - 2, piece)
                objs.append([oid if oid < 7 else 0x80 + oid, ('%02x' % (0x41 + oid)) * n])
                left -= n + 2
                oid += 1
            cases.append({'kind': 'rsp:43', 'fields': {'read_code': 3, 'conformity': 0x83, 'more': 0, 'next_id': 0, 'objects': objs}})
    out.append(('identification-responses-up-to-the-exact-fit', cases, True))
    # file-record, event-log and slave-id messages at every size up to the largest that fits a 253-byte PDU
    cases = []
    for n in range(1, 36):          # 35 sub-requests of 7 bytes = 245 bytes
        cases.append({'kind': 'req:20', 'fields': {'records': [{'file': i + 1, 'record': (i * 37) & 0x270F, 'length': 1 + i % 3} for i in range(n)]}})
    for words in list(range(1, 8)) + list(range(116, 125)):      # one record: 2 + 2*words <= 251
        if 2 + 2 * words > 251:
            break
        cases.append({'kind': 'rsp:20', 'fields': {'records': [{'data': ''.join('%04x' % ((i * 259 + 7) & 0xFFFF) for i in range(words))}]}})
    for words in list(range(1, 8)) + list(range(114, 123)):      # one record: 7 + 2*words <= 251
        if 7 + 2 * words > 251:
            break
        rec = {'file': 4, 'record': 7, 'data': ''.join('%04x' % ((i * 263 + 5) & 0xFFFF) for i in range(words))}
        cases.append({'kind': 'req:21', 'fields': {'records': [rec]}})
        cases.append({'kind': 'rsp:21', 'fields': {'records': [rec]}})
    for n in range(2, 13):           # several records sharing the PDU
        w = max(1, (251 // n - 7) // 2)
        recs = [{'file': 1 + i, 'record': i, 'data': ''.join('%04x' % ((i * 17 + j) & 0xFFFF) for j in range(w))} for i in range(n)]
        cases.append({'kind': 'req:21', 'fields': {'records': recs}})
        cases.append({'kind': 'rsp:20', 'fields': {'records': [{'data': r['data']} for r in recs]}})
    for n in list(range(0, 5)) + [62, 63, 64]:
        cases.append({'kind': 'rsp:12', 'fields': {'status_word': 0xFFFF, 'event_count': 0x0102, 'message_count': 0x0304, 'events': [(i * 5) & 0xFF for i in range(n)]}})
    for n in list(range(0, 5)) + [200, 248, 249, 250]:
        cases.append({'kind': 'rsp:17', 'fields': {'identifier': ''.join('%02x' % ((i * 3 + 1) & 0xFF) for i in range(n)), 'run': bool(n % 2)}})
    for n in list(range(1, 6)) + [60, 100, 124, 125]:
        cases.append({'kind': 'req:8', 'fields': {'sub': 0, 'data': [(i * 9 + 1) & 0xFFFF for i in range(n)]}})
        cases.append({'kind': 'rsp:8', 'fields': {'sub': 0, 'data': [(i * 9 + 1) & 0xFFFF for i in range(n)]}})
    out.append(('variable-length-messages-up-to-the-largest-that-fits', cases, False))
    return out


def _register_custom(kind, fc, how):
    from pymodbus.factory import ServerDecoder, ClientDecoder
    from pymodbus.pdu import ModbusRequest, ModbusResponse
    base = ModbusRequest if kind.startswith('req') else ModbusResponse
    code = {'same-fc': fc & 0x7F, 'unassigned-fc': 0x41, 'diag-sub': 8}[how]
    body = {'function_code': code, 'decode': lambda self, data: setattr(self, 'raw', data), 'encode': lambda self: b''}
    if how == 'diag-sub':
        body['sub_function_code'] = 0x0B
    custom = type('VerifCustomMessage', (base,), body)
    other = ServerDecoder() if kind.startswith('req') else ClientDecoder()
    other.register(custom)


def _same_up_to_object_order(got, f):
    try:
        k2, f2 = specpdu.decode('rsp', got)
    except specpdu.SpecError:
        return False
    return k2 == 'rsp:43' and kinds.fields_equal(f, f2)


def _finding(kind, f, dk, got=None):
    """Known-finding signature: predicate over the INPUT + kind of discrepancy + the exact
    defective output recorded for the finding (any other wrong output is a new violation)."""
    import struct
    if kind == 'rsp:24' and len(f['values']) >= 1:
        n = len(f['values'])
        if dk == 'encode-mismatch' and got == bytes([24]) + struct.pack('>HH', 2 + 2 * n, 2 * n) + b''.join(
                struct.pack('>H', v) for v in f['values']):
            return 'KF-FIFO-COUNT'
        if dk == 'decode-fields' and got == {'values': f['values'][:max(0, n - 4)]}:
            return 'KF-FIFO-COUNT'
    if kind == 'rsp:20' and len(f['records']) >= 1 and dk == 'encode-mismatch':
        datas = [bytes.fromhex(r['data']) for r in f['records']]
        bad = bytes([20, sum(len(d) + 2 for d in datas) & 0xFF]) + b''.join(bytes([6, len(d) // 2]) + d for d in datas)
        if got == bad:
            return 'KF-FILE-RECORD-RESPONSE-LAYOUT'
    return None


def nontrivial(kind, f):
    for v in f.values():
        if isinstance(v, list) and len(v) >= 1:
            return True
        if isinstance(v, str) and len(v) >= 2:
            return True
        if isinstance(v, int) and not isinstance(v, bool) and v not in (0, 1):
            return True
    return False


def run_case(case):
    from pymodbus.factory import ServerDecoder, ClientDecoder
    kind, f = case['kind'], case['fields']
    discs = []
    labels = ['kind:' + kind]
    if kind.endswith(':8'):
        labels.append('diag-sub:%d' % f['sub'])
    want = specpdu.encode(kind, f)
    labels.append('pdu>253' if len(want) > 253 else 'pdu<=253')

    # (a) encode direction
    try:
        obj = kinds.build(kind, f)
        got = bytes([obj.function_code]) + obj.encode()
        if got != want and kind == 'rsp:43' and len(got) == len(want) and _same_up_to_object_order(got, f):
            labels.append('objects-in-another-order')       # a mapping has no order: any permutation of the objects is the spec PDU of these fields
        elif got != want:
            discs.append(Disc('encode-mismatch', '%s %r: encoded %s, spec %s' % (kind, _short(f), got.hex()[:80], want.hex()[:80]),
                              _finding(kind, f, 'encode-mismatch', got)))
    except Exception as e:
        if len(want) > 253:
            # the field values do not fit any PDU (the specification defines none for them): refusing to encode is as good as encoding
            labels.append('oversize-message-refused')
        else:
            discs.append(Disc('encode-raises', '%s %r: %s: %s' % (kind, _short(f), type(e).__name__, e),
                              _finding(kind, f, 'encode-raises')))

    # (b) decode direction
    if case.get('custom_on_other_decoder'):
        # the application registered a custom message class on ANOTHER decoder object (what custom_functions= does for one server):
        # a decoder created afterwards must still know exactly the standard table
        labels.append('custom-class-on-another-decoder')
        _register_custom(kind, want[0], case['custom_on_other_decoder'])
    dec = ServerDecoder() if kind.startswith('req') else ClientDecoder()
    try:
        msg = dec.decode(want)
        if msg is None and len(want) > 253:
            labels.append('oversize-pdu-refused')
        elif msg is None:
            discs.append(Disc('decode-none', '%s: decoder returned None for spec PDU %s' % (kind, want.hex()[:80]),
                              _finding(kind, f, 'decode-none')))
        else:
            cls = kinds.expected_class(kind, f)
            if type(msg) is not cls:
                discs.append(Disc('decode-class', '%s: decoded as %s, expected %s' % (kind, type(msg).__name__, cls.__name__),
                                  _finding(kind, f, 'decode-class')))
            else:
                k2, f2 = kinds.norm(msg)
                if k2 != kind or not kinds.fields_equal(f, f2):
                    discs.append(Disc('decode-fields', '%s: wire fields %r decoded as %r' % (kind, _short(f), _short(f2)),
                                      _finding(kind, f, 'decode-fields', f2)))
    except Exception as e:
        if len(want) > 253:
            labels.append('oversize-pdu-refused')
        else:
            discs.append(Disc('decode-raises', '%s: decoding spec PDU %s raised %s: %s' % (kind, want.hex()[:80], type(e).__name__, e),
                              _finding(kind, f, 'decode-raises')))
    return Outcome(discs, labels, nontrivial(kind, f))


def _short(f):
    out = {}
    for k, v in f.items():
        if isinstance(v, list) and len(v) > 12:
            out[k] = '%d items: %r...' % (len(v), v[:6])
        elif isinstance(v, str) and len(v) > 40:
            out[k] = v[:40] + '...'
        else:
            out[k] = v
    return out
