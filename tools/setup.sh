#!/bin/sh
# Offline, idempotent: make sure hypothesis is importable from /venv and atheris from /verif/.deps
cd "$(dirname "$0")/.."
/venv/bin/python -c 'import hypothesis' 2>/dev/null || \
  /venv/bin/pip install --no-index --find-links /opt/veriftools/wheels hypothesis >/dev/null 2>&1 || \
  { echo "setup: cannot install hypothesis"; exit 1; }
if ! PYTHONPATH=.deps /venv/bin/python -c 'import atheris' 2>/dev/null; then
  /venv/bin/pip install --no-index --find-links /opt/veriftools/wheels --target .deps atheris >/dev/null 2>&1 || \
    echo "setup: atheris not installable; thorough-tier fuzz stages will be skipped"
fi
echo '{"findings": [], "fixed": []}' > /dev/null
exit 0
